"""Alpha-renaming of locals and keyword-free parameters: a mechanical behaviour-preserving variant of the package
(used by the self-test: every check must stay silent on it; see tools/alpha_rename.py for the command line)."""
import ast
import os

def local_targets(fn):
    """names bound in fn's own scope (not in nested function scopes), and names that must be left alone"""
    bound, keep = set(), set()

    def visit(n, top):
        for ch in ast.iter_child_nodes(n):
            if isinstance(ch, (ast.FunctionDef, ast.AsyncFunctionDef, ast.Lambda, ast.ClassDef)):
                # a nested scope: names it binds itself must not be confused with ours
                for a in ast.walk(ch):
                    if isinstance(a, ast.arg):
                        keep.add(a.arg)
                    elif isinstance(a, ast.Name) and isinstance(a.ctx, (ast.Store, ast.Del)):
                        keep.add(a.id)
                if isinstance(ch, (ast.FunctionDef, ast.ClassDef)):
                    keep.add(ch.name)
                continue
            if isinstance(ch, (ast.Global, ast.Nonlocal)):
                keep.update(ch.names)
            if isinstance(ch, ast.Name) and isinstance(ch.ctx, (ast.Store, ast.Del)):
                bound.add(ch.id)
            if isinstance(ch, ast.ExceptHandler) and ch.name:
                keep.add(ch.name)
            if isinstance(ch, (ast.Import, ast.ImportFrom)):
                for al in ch.names:
                    keep.add((al.asname or al.name).split(".")[0])
            if isinstance(ch, (ast.ListComp, ast.SetComp, ast.DictComp, ast.GeneratorExp)):
                # comprehension variables live in their own scope but may shadow: rename them consistently too
                pass
            visit(ch, False)

    visit(fn, True)
    return bound, keep



def rename_tree(root, suffix="_q", params=True, only=None, tests="/repo/tests"):
    """Rename in place under <root>/src/ckl.  -> number of occurrences renamed"""
    pkg = os.path.join(root, "src", "ckl")
    trees = {}
    for fn in sorted(os.listdir(pkg)):
        if fn.endswith(".py"):
            trees[fn] = ast.parse(open(os.path.join(pkg, fn)).read())
    used_keywords = set()
    for t in trees.values():
        for n in ast.walk(t):
            if isinstance(n, ast.Call):
                used_keywords.update(k.arg for k in n.keywords if k.arg)
    if tests and os.path.isdir(tests):
        for fn in os.listdir(tests):
            if fn.endswith(".py"):
                for n in ast.walk(ast.parse(open(os.path.join(tests, fn)).read())):
                    if isinstance(n, ast.Call):
                        used_keywords.update(k.arg for k in n.keywords if k.arg)
    total = 0
    for fn, tree in trees.items():
        if only and fn not in only:
            continue
        path = os.path.join(pkg, fn)
        lines = open(path).read().split("\n")
        edits = []
        for f in ast.walk(tree):
            if not isinstance(f, (ast.FunctionDef, ast.AsyncFunctionDef)):
                continue
            bound, keep = local_targets(f)
            a = f.args
            pnames = [x.arg for x in a.posonlyargs + a.args + a.kwonlyargs]
            if a.vararg:
                keep.add(a.vararg.arg)
            if a.kwarg:
                keep.add(a.kwarg.arg)
            names = set(bound) - keep - set(pnames)
            if params:
                for p in pnames:
                    if p not in ("self", "cls") and p not in used_keywords and p not in keep and not a.kwonlyargs:
                        names.add(p)
            names = {n for n in names if not (n.startswith("__") and n.endswith("__"))}
            if not names:
                continue
            for n in ast.walk(f):
                if isinstance(n, ast.Name) and n.id in names:
                    edits.append((n.lineno, n.col_offset, n.id, n.id + suffix))
                elif isinstance(n, ast.arg) and n.arg in names and n in (a.posonlyargs + a.args + a.kwonlyargs):
                    edits.append((n.lineno, n.col_offset, n.arg, n.arg + suffix))
        for ln, col, old, new in sorted(set(edits), reverse=True):
            b = lines[ln - 1].encode("utf-8")
            if b[col:col + len(old.encode())] != old.encode():
                raise ValueError(f"{fn}:{ln}:{col}: expected {old!r}")
            lines[ln - 1] = (b[:col] + new.encode() + b[col + len(old.encode()):]).decode("utf-8")
            total += 1
        text = "\n".join(lines)
        ast.parse(text)
        with open(path, "w") as fh:
            fh.write(text)
    return total
