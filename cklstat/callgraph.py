"""E2: resolved references and call graph over the repo model.

Every Name/Attribute chain inside a function is classified:
  ("host", "os.path.exists")   dotted name rooted at an imported non-repo module or a builtin
  ("func", Func)               repo function or method (self.m, Class.m, module function)
  ("ctor", Class)              constructor call -> the class's __init__ through the MRO
  ("dispatch", "name")         method call on a receiver of unknown class: every repo class
                                defining that method name is a possible target (over-approximation)
References (not only calls) to host names are collected, so aliasing a sink
(`f = os.remove`) is still a reference to the sink at that site.
"""
import ast
import builtins

from .core import Func, norm

BUILTIN_NAMES = set(dir(builtins))


def dotted(node):
    """a.b.c -> ['a','b','c'] if rooted at a Name, else None."""
    parts = []
    while isinstance(node, ast.Attribute):
        parts.append(node.attr)
        node = node.value
    if isinstance(node, ast.Name):
        parts.append(node.id)
        return list(reversed(parts))
    return None


def local_names(fn_node):
    """Names bound inside a function (params, assignments, for targets, with, except, nested defs, imports)."""
    out = set()
    a = fn_node.args
    for x in a.posonlyargs + a.args + a.kwonlyargs:
        out.add(x.arg)
    if a.vararg:
        out.add(a.vararg.arg)
    if a.kwarg:
        out.add(a.kwarg.arg)
    for n in ast.walk(fn_node):
        if isinstance(n, ast.Name) and isinstance(n.ctx, (ast.Store, ast.Del)):
            out.add(n.id)
        elif isinstance(n, (ast.FunctionDef, ast.ClassDef)) and n is not fn_node:
            out.add(n.name)
        elif isinstance(n, ast.ExceptHandler) and n.name:
            out.add(n.name)
        elif isinstance(n, ast.arg):
            out.add(n.arg)
    return out


class Ref:
    __slots__ = ("kind", "target", "node", "is_call", "call")

    def __init__(self, kind, target, node, is_call, call=None):
        self.kind, self.target, self.node, self.is_call, self.call = kind, target, node, is_call, call

    def __repr__(self):
        t = self.target.qual if isinstance(self.target, Func) else getattr(self.target, "name", self.target)
        return f"<{self.kind} {t} @{getattr(self.node, 'lineno', '?')}>"


class CallGraph:
    def __init__(self, model, repr_dispatch=False):
        self.model = model
        self.repr_dispatch = repr_dispatch
        self.by_method = {}          # method name -> [Func]
        for c in model.classes.values():
            for m in c.methods.values():
                self.by_method.setdefault(m.name, []).append(m)
        self._refs = {}

    # --------------------------------------------------------------------------
    def resolve_module_name(self, module, name):
        """What does a bare (non-local) name mean in this module?"""
        if name in module.funcs:
            return ("func", module.funcs[name])
        if name in module.classes:
            return ("ctor", module.classes[name])
        if name in module.imports:
            origin = module.imports[name]
            if origin.startswith("ckl."):
                parts = origin.split(".")
                if len(parts) == 3:
                    m = self.model.modules.get(parts[1])
                    if m:
                        if parts[2] in m.funcs:
                            return ("func", m.funcs[parts[2]])
                        if parts[2] in m.classes:
                            return ("ctor", m.classes[parts[2]])
                        return ("repo-global", origin)
                return ("repo-module", origin)
            if origin == "ckl":
                return ("repo-module", "ckl")
            return ("host", origin)
        if name in module.globals_assigned:
            return ("repo-global", module.name + "." + name)
        if name in BUILTIN_NAMES:
            return ("host", name)
        return ("unknown", name)

    def refs(self, func):
        """All classified references inside `func` (nested defs and lambdas included)."""
        if func in self._refs:
            return self._refs[func]
        module = func.module
        locs = local_names(func.node)
        # names imported inside the function body are module-ish, not locals
        inner_imports = {}
        for n in ast.walk(func.node):
            if isinstance(n, ast.Import):
                for a in n.names:
                    inner_imports[a.asname or a.name.split(".")[0]] = a.name if a.asname else a.name.split(".")[0]
            elif isinstance(n, ast.ImportFrom):
                for a in n.names:
                    inner_imports[a.asname or a.name] = (n.module or "") + "." + a.name
        out = []
        call_funcs = {}
        for n in ast.walk(func.node):
            if isinstance(n, ast.Call):
                call_funcs[id(n.func)] = n
        inner = set()   # attribute nodes that are the .value of a larger chain
        for n in ast.walk(func.node):
            if isinstance(n, ast.Attribute) and isinstance(n.value, (ast.Attribute, ast.Name)):
                inner.add(id(n.value))
        for n in ast.walk(func.node):
            if isinstance(n, ast.Name) and isinstance(n.ctx, ast.Load) and id(n) not in inner:
                call = call_funcs.get(id(n))
                r = self._resolve_chain(func, module, locs, inner_imports, [n.id], n, call)
                if r:
                    out.append(r)
            elif isinstance(n, ast.Attribute) and id(n) not in inner:
                call = call_funcs.get(id(n))
                d = dotted(n)
                if d is None:
                    # receiver is an expression: dispatch on the last attribute if it is called
                    if call is not None:
                        recv = n.value
                        if isinstance(recv, ast.Call) and isinstance(recv.func, ast.Name) \
                                and recv.func.id == "super" and func.cls is not None:
                            tgt = None
                            for k in self.model.mro(func.cls)[1:]:
                                if n.attr in k.methods:
                                    tgt = k.methods[n.attr]
                                    break
                            if tgt is not None:
                                out.append(Ref("func", tgt, n, True, call))
                            continue
                        if n.attr.startswith("__") and n.attr.endswith("__"):
                            continue
                        out.append(Ref("dispatch", n.attr, n, True, call))
                    continue
                r = self._resolve_chain(func, module, locs, inner_imports, d, n, call)
                if r:
                    out.append(r)
        # getattr(x, <names that can be told statically>) is an attribute access like any other
        for n in ast.walk(func.node):
            if isinstance(n, ast.Call) and isinstance(n.func, ast.Name) and n.func.id == "getattr" \
                    and "getattr" not in locs and len(n.args) >= 2:
                names = getattr_names(self.model, func, n)
                if names is None:
                    continue
                d = dotted(n.args[0])
                for nm in sorted(names):
                    r = None
                    if d is not None:
                        r = self._resolve_chain(func, module, locs, inner_imports, d + [nm], n, n)
                    out.append(r if r is not None else Ref("dispatch", nm, n, True, n))
        if self.repr_dispatch:
            # str(x) / repr(x) / format(x) / f"{x}" / "%s" % x run the __repr__ / __str__ of whatever x is
            for n in ast.walk(func.node):
                if isinstance(n, ast.Call) and isinstance(n.func, ast.Name) and n.func.id in ("str", "repr", "format") \
                        and n.args and n.func.id not in locs:
                    a0 = n.args[0]
                    is_pos = (isinstance(a0, ast.Name) and a0.id == "pos") or \
                             (isinstance(a0, ast.Attribute) and a0.attr == "pos")
                    if is_pos and "SourcePos" in self.model.classes:
                        # positions are SourcePos objects (or None): only that renderer can run
                        sp = self.model.classes["SourcePos"].methods.get("__repr__")
                        if sp is not None:
                            out.append(Ref("func", sp, n, True, n))
                    elif not isinstance(a0, ast.Constant):
                        out.append(Ref("dispatch", "__repr__", n, True, n))
                        out.append(Ref("dispatch", "__str__", n, True, n))
                elif isinstance(n, ast.FormattedValue) and not isinstance(n.value, ast.Constant):
                    a0 = n.value
                    is_pos = (isinstance(a0, ast.Name) and a0.id == "pos") or \
                             (isinstance(a0, ast.Attribute) and a0.attr == "pos")
                    if is_pos and "SourcePos" in self.model.classes:
                        sp = self.model.classes["SourcePos"].methods.get("__repr__")
                        if sp is not None:
                            out.append(Ref("func", sp, n, True, None))
                    elif self._host_string(func, a0):
                        pass        # formatting a host str runs no repo code
                    else:
                        out.append(Ref("dispatch", "__repr__", n, True, None))
                        out.append(Ref("dispatch", "__str__", n, True, None))
        self._refs[func] = out
        return out

    def _host_string(self, func, e, depth=0):
        """Is the expression certainly a host str?  Literals, f-strings, concatenations of those, locals assigned only
        such expressions, and calls of module functions all of whose returns are such expressions."""
        if isinstance(e, ast.JoinedStr) or (isinstance(e, ast.Constant) and isinstance(e.value, str)):
            return True
        if isinstance(e, ast.BinOp) and isinstance(e.op, ast.Add):
            return self._host_string(func, e.left, depth) or self._host_string(func, e.right, depth)
        if isinstance(e, ast.Call) and isinstance(e.func, ast.Name) and e.func.id in ("str", "repr"):
            return True
        if depth > 2:
            return False
        if isinstance(e, ast.Name):
            vals = []
            for n in ast.walk(func.node):
                if isinstance(n, ast.Assign) and any(isinstance(t, ast.Name) and t.id == e.id for t in n.targets):
                    vals.append(n.value)
                elif isinstance(n, (ast.AugAssign, ast.For, ast.With, ast.NamedExpr, ast.ExceptHandler, ast.arg)):
                    tgt = getattr(n, "target", None)
                    nm = n.arg if isinstance(n, ast.arg) else n.name if isinstance(n, ast.ExceptHandler) else None
                    if nm == e.id or (tgt is not None and any(isinstance(x, ast.Name) and x.id == e.id for x in ast.walk(tgt))):
                        return False
            return bool(vals) and all(self._host_string(func, v, depth + 1) for v in vals)
        if isinstance(e, ast.Call) and isinstance(e.func, ast.Name) and e.func.id in func.module.funcs:
            callee = func.module.funcs[e.func.id]
            rets = [r.value for r in ast.walk(callee.node) if isinstance(r, ast.Return)]
            return bool(rets) and all(r is not None and self._host_string(callee, r, depth + 1) for r in rets)
        return False

    def _resolve_chain(self, func, module, locs, inner_imports, d, node, call):
        head = d[0]
        is_call = call is not None
        if head == "self" and func.cls is not None and len(d) >= 2 and "self" in func.params[:1]:
            if len(d) == 2:
                m = self.model.find_method(func.cls, d[1])
                if m is not None and is_call:
                    # include overrides in subclasses (self may be an instance of one)
                    return Ref("selfcall", d[1], node, True, call)
                return None
            if is_call:
                return Ref("dispatch", d[-1], node, True, call)
            return None
        if head == "super" or (len(d) >= 1 and head == "cls"):
            return None
        if head in locs and head not in inner_imports:
            if len(d) >= 2 and is_call:
                return Ref("dispatch", d[-1], node, True, call)
            if len(d) == 1 and is_call:
                return Ref("localcall", head, node, True, call)
            return None
        if head in inner_imports:
            origin = inner_imports[head]
            kind = ("repo-module", origin) if origin.startswith("ckl") else ("host", origin)
        else:
            kind = self.resolve_module_name(module, head)
        k, tgt = kind
        if k == "host":
            name = ".".join([tgt] + d[1:])
            return Ref("host", name, node, is_call, call)
        if k == "repo-module":
            # ckl.functions.FuncLambda(...) / ckl.parser.parse_script(...)
            parts = (tgt.split(".") + d[1:])
            if len(parts) >= 3 and parts[0] == "ckl":
                m = self.model.modules.get(parts[1])
                if m:
                    if parts[2] in m.funcs:
                        return Ref("func", m.funcs[parts[2]], node, is_call, call)
                    if parts[2] in m.classes:
                        c = m.classes[parts[2]]
                        if len(parts) == 3:
                            return Ref("ctor", c, node, is_call, call)
                        mm = self.model.find_method(c, parts[3])
                        if mm:
                            return Ref("func", mm, node, is_call, call)
            return None
        if k == "func":
            if len(d) == 1:
                return Ref("func", tgt, node, is_call, call)
            return None
        if k == "ctor":
            if len(d) == 1:
                return Ref("ctor", tgt, node, is_call, call)
            if len(d) == 2:
                mm = self.model.find_method(tgt, d[1])
                if mm:
                    return Ref("func", mm, node, is_call, call)
            return None
        if k == "repo-global":
            if len(d) >= 2 and is_call:
                return Ref("dispatch", d[-1], node, True, call)
            return Ref("global", tgt, node, is_call, call)
        if k == "unknown":
            if len(d) >= 2 and is_call:
                return Ref("dispatch", d[-1], node, True, call)
            return Ref("unknown", head, node, is_call, call)
        return None

    # --------------------------------------------------------------------------
    def targets(self, func, ref, dispatch_filter=None):
        """Repo functions a reference may transfer control to."""
        if ref.kind == "func":
            return [ref.target]
        if ref.kind == "ctor":
            init = self.model.find_method(ref.target, "__init__")
            return [init] if init else []
        if ref.kind == "selfcall":
            out = []
            base = func.cls
            m = self.model.find_method(base, ref.target)
            if m:
                out.append(m)
            for sub in self.model.subclasses(base.name):
                if ref.target in sub.methods:
                    out.append(sub.methods[ref.target])
            return out
        if ref.kind == "dispatch":
            cands = self.by_method.get(ref.target, [])
            if dispatch_filter:
                cands = [c for c in cands if dispatch_filter(ref.target, c)]
            return cands
        return []

    def reach(self, roots, dispatch_filter=None, stop=None, skip_ref=None):
        """BFS closure over call edges.  Returns {Func: (parent Func, ref)}."""
        seen = {}
        todo = []
        for r in roots:
            if r not in seen:
                seen[r] = (None, None)
                todo.append(r)
        while todo:
            f = todo.pop()
            if stop and stop(f):
                continue
            for ref in self.refs(f):
                if skip_ref is not None and skip_ref(f, ref):
                    continue
                for t in self.targets(f, ref, dispatch_filter):
                    if t not in seen:
                        seen[t] = (f, ref)
                        todo.append(t)
        return seen

    @staticmethod
    def path_to(seen, f):
        path = []
        while f is not None:
            path.append(f.qual)
            f = seen[f][0]
        return " <- ".join(path)


REFLECTION_BUILTINS = {"getattr", "setattr", "delattr", "eval", "exec", "compile", "__import__",
                       "globals", "locals", "vars", "breakpoint"}
REFLECTION_ATTRS = {"__dict__", "__class__", "__subclasses__", "__globals__", "__builtins__",
                    "__getattribute__", "__bases__", "__mro__", "__code__"}


def getattr_names(model, func, call):
    """Attribute names a getattr(x, name) call can ask for, when they can be told statically: a string literal, or
    a parameter of the enclosing function that every call site in the package fills with a string literal."""
    e = call.args[1]
    if isinstance(e, ast.Constant) and isinstance(e.value, str):
        return {e.value}
    if not isinstance(e, ast.Name):
        return None
    params = [a.arg for a in func.node.args.posonlyargs + func.node.args.args]
    if e.id not in params:
        return None
    for n in ast.walk(func.node):
        if isinstance(n, ast.Name) and n.id == e.id and isinstance(n.ctx, (ast.Store, ast.Del)):
            return None
    idx = params.index(e.id) - (1 if func.cls is not None and params[:1] in (["self"], ["cls"]) else 0)
    names = set()
    sites = 0
    for g in model.all_funcs(True):
        for n in ast.walk(g.node):
            if not isinstance(n, ast.Call):
                continue
            fn = n.func
            nm = fn.attr if isinstance(fn, ast.Attribute) else fn.id if isinstance(fn, ast.Name) else None
            if nm != func.name:
                continue
            arg = n.args[idx] if 0 <= idx < len(n.args) else next(
                (k.value for k in n.keywords if k.arg == e.id), None)
            if any(isinstance(a, ast.Starred) for a in n.args) or any(k.arg is None for k in n.keywords):
                return None
            if not (isinstance(arg, ast.Constant) and isinstance(arg.value, str)):
                return None
            names.add(arg.value)
            sites += 1
        # a reference to the function that is not a call (alias, callback) hides call sites
        for n in ast.walk(g.node):
            if isinstance(n, ast.Attribute) and n.attr == func.name and isinstance(n.ctx, ast.Load):
                if not any(isinstance(c, ast.Call) and c.func is n for c in ast.walk(g.node)):
                    return None
    return names if sites else None


def reflection_sites(model):
    """The 'no reflection' audit that makes the call graph an over-approximation.  getattr calls whose attribute
    names can be told statically are ordinary attribute accesses (the call graph follows them) and are not listed."""
    out = []
    for f in model.all_funcs():
        resolved = {id(n.func) for n in ast.walk(f.node)
                    if isinstance(n, ast.Call) and isinstance(n.func, ast.Name) and n.func.id == "getattr"
                    and len(n.args) >= 2 and getattr_names(model, f, n) is not None}
        for n in ast.walk(f.node):
            if isinstance(n, ast.Name) and n.id in REFLECTION_BUILTINS and isinstance(n.ctx, ast.Load):
                if id(n) in resolved:
                    continue
                if n.id not in local_names(f.node):
                    out.append((f, n, n.id))
            elif isinstance(n, ast.Attribute) and n.attr in REFLECTION_ATTRS:
                out.append((f, n, n.attr))
    for m in model.modules.values():
        for name, origin in m.imports.items():
            if origin.split(".")[0] in ("importlib", "ctypes", "inspect", "types", "gc"):
                out.append((None, m, origin))
    return out
