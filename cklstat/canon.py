"""Canonical local names.

Rules name roles ("the operand `a`", "the accumulated `result`") by the local variable that plays them in the pinned
tree.  A local's name is not part of the program's behaviour, so before anything is analysed every function's locals
are mapped back to the names they have in the pinned tree, by HOW THEY ARE DEFINED, not by how they are spelled:

  parameter            -> its position
  x = <expr>           -> the text of <expr>, with the locals it mentions already replaced by their canonical names
  a, b = <expr>        -> the same plus the position inside the target
  for x in <expr>      -> the text of <expr> (and the position inside a tuple target)
  with <expr> as x / except <T> as x / comprehension variables alike

`canon_table.json` (generated from /repo by tools/gen_canon.py) holds, per function, the ordered list of
(definition signature, name).  When a function of the analysed tree has a local with the same signature (the k-th one
with that signature for the k-th entry), the local is renamed to the recorded name in the syntax tree the rules see;
locals with no counterpart keep their spelling.  On the pinned tree this is the identity.  Findings keep their line
numbers; quoted code shows the canonical names.
"""
import ast
import json
import os

TABLE_PATH = os.path.join(os.path.dirname(os.path.abspath(__file__)), "canon_table.json")


def _own_nodes(fn):
    """nodes of fn's own scope in source order (nested function / class bodies are separate functions)"""
    out = []

    def visit(n):
        for ch in ast.iter_child_nodes(n):
            if isinstance(ch, (ast.FunctionDef, ast.AsyncFunctionDef, ast.ClassDef)):
                continue
            out.append(ch)
            visit(ch)

    visit(fn)
    return out


def _text(e, mapping, local_names):
    """source text of e with locals replaced by their canonical name ('?' when not yet known)"""
    class R(ast.NodeTransformer):
        def visit_Name(self, n):
            if n.id in mapping:
                return ast.copy_location(ast.Name(id=mapping[n.id], ctx=n.ctx), n)
            if n.id in local_names:
                return ast.copy_location(ast.Name(id="_", ctx=n.ctx), n)
            return n
    import copy
    try:
        return " ".join(ast.unparse(R().visit(copy.deepcopy(e))).split())
    except Exception:
        return "?"


def _targets(t, path=()):
    """(Name node, position path) for every name bound by an assignment / loop target"""
    if isinstance(t, ast.Name):
        yield t, path
    elif isinstance(t, (ast.Tuple, ast.List)):
        for i, e in enumerate(t.elts):
            yield from _targets(e, path + (i,))
    elif isinstance(t, ast.Starred):
        yield from _targets(t.value, path + ("*",))


def bindings(fn):
    """[(name, kind, expr-or-None, path)] in source order, first binding of each name only"""
    a = fn.args
    out = []
    seen = set()
    for i, p in enumerate(a.posonlyargs + a.args):
        out.append((p.arg, "param", None, (i,)))
        seen.add(p.arg)
    for p in a.kwonlyargs:
        out.append((p.arg, "kwonly", None, (p.arg,)))
        seen.add(p.arg)
    if a.vararg:
        out.append((a.vararg.arg, "vararg", None, ()))
        seen.add(a.vararg.arg)
    if a.kwarg:
        out.append((a.kwarg.arg, "kwarg", None, ()))
        seen.add(a.kwarg.arg)
    skip = set()
    for n in _own_nodes(fn):
        if isinstance(n, (ast.Global, ast.Nonlocal)):
            skip.update(n.names)
    events = []
    for n in _own_nodes(fn):
        if isinstance(n, ast.Assign):
            for t in n.targets:
                for nm, path in _targets(t):
                    events.append((nm.lineno, nm.col_offset, nm.id, "assign", n.value, path))
        elif isinstance(n, ast.AnnAssign) and n.value is not None:
            for nm, path in _targets(n.target):
                events.append((nm.lineno, nm.col_offset, nm.id, "assign", n.value, path))
        elif isinstance(n, ast.AugAssign) and isinstance(n.target, ast.Name):
            events.append((n.target.lineno, n.target.col_offset, n.target.id, "aug", n.value, ()))
        elif isinstance(n, ast.NamedExpr):
            events.append((n.target.lineno, n.target.col_offset, n.target.id, "assign", n.value, ()))
        elif isinstance(n, (ast.For, ast.AsyncFor)):
            for nm, path in _targets(n.target):
                events.append((nm.lineno, nm.col_offset, nm.id, "for", n.iter, path))
        elif isinstance(n, ast.comprehension):
            for nm, path in _targets(n.target):
                events.append((nm.lineno, nm.col_offset, nm.id, "comp", n.iter, path))
        elif isinstance(n, ast.withitem) and n.optional_vars is not None:
            for nm, path in _targets(n.optional_vars):
                events.append((nm.lineno, nm.col_offset, nm.id, "with", n.context_expr, path))
        elif isinstance(n, ast.ExceptHandler) and n.name:
            events.append((n.lineno, n.col_offset, n.name, "except", n.type, ()))
    events.sort(key=lambda e: (e[0], e[1]))
    for _, _, name, kind, expr, path in events:
        if name in seen or name in skip:
            continue
        seen.add(name)
        out.append((name, kind, expr, path))
    return out


def signatures(fn, table_names=None):
    """[(actual name, signature)] for fn; signature texts use canonical names for already-processed locals.
    table_names: [(signature, name)] from the table (apply mode) or None (build mode: canonical = actual)."""
    binds = bindings(fn)
    local_names = {b[0] for b in binds}
    mapping = {}
    used = {}
    out = []
    avail = {}
    if table_names is not None:
        for sig, nm in table_names:
            avail.setdefault(sig, []).append(nm)
    taken = set()
    for name, kind, expr, path in binds:
        txt = _text(expr, mapping, local_names) if expr is not None else ""
        sig = f"{kind}|{txt}|{','.join(map(str, path))}"
        canon = name
        if table_names is not None:
            k = used.get(sig, 0)
            used[sig] = k + 1
            cands = avail.get(sig, [])
            if k < len(cands):
                canon = cands[k]
        mapping[name] = canon
        out.append((name, sig, canon))
    return out


def _quals(tree):
    """(qualified name, FunctionDef) for every function in a module tree"""
    def rec(body, prefix):
        for st in body:
            if isinstance(st, (ast.FunctionDef, ast.AsyncFunctionDef)):
                q = prefix + st.name
                yield q, st
                yield from rec(st.body, q + ".<locals>.")
            elif isinstance(st, ast.ClassDef):
                yield from rec(st.body, prefix + st.name + ".")
            elif isinstance(st, (ast.If, ast.Try, ast.With, ast.For, ast.While)):
                for fld in ("body", "orelse", "finalbody"):
                    yield from rec(getattr(st, fld, []) or [], prefix)
    yield from rec(tree.body, "")


def build(trees):
    """{module: {qual: [[signature, name], ..]}} from {module name: tree}"""
    table = {}
    for mod, tree in trees.items():
        t = {}
        for q, fn in _quals(tree):
            t[q] = [[sig, name] for name, sig, _ in signatures(fn)]
        table[mod] = t
    return table


_TABLE = None


def load_table():
    global _TABLE
    if _TABLE is None:
        try:
            with open(TABLE_PATH) as f:
                _TABLE = json.load(f)
        except (OSError, ValueError):
            _TABLE = {}
    return _TABLE


def apply(tree, module_name):
    """Rename locals of every function in `tree` to their canonical names (in place).  -> number of names changed"""
    table = load_table().get(module_name)
    if not table:
        return 0
    changed = 0
    for q, fn in _quals(tree):
        entries = table.get(q)
        if not entries:
            continue
        res = signatures(fn, entries)
        ren = {}
        canon_names = [c for _, _, c in res]
        for name, sig, canon in res:
            if canon != name:
                ren[name] = canon
        if not ren:
            continue
        # a canonical name must not collide with a different local that keeps its own spelling
        keeps = {name for name, _, canon in res if canon == name}
        ren = {a: c for a, c in ren.items() if c not in keeps or c in ren}
        if len(set(ren.values())) != len(ren):
            continue
        own = set(id(n) for n in _own_nodes(fn))
        for n in ast.walk(fn):
            # nested functions that only read the outer local are renamed too, unless they bind the name themselves
            if isinstance(n, ast.Name) and n.id in ren:
                n.id = ren[n.id]
                changed += 1
            elif isinstance(n, ast.arg) and n.arg in ren and id(n) in own or \
                    (isinstance(n, ast.arg) and n.arg in ren and n in (fn.args.posonlyargs + fn.args.args + fn.args.kwonlyargs)):
                n.arg = ren[n.arg]
                changed += 1
            elif isinstance(n, ast.ExceptHandler) and n.name in ren:
                n.name = ren[n.name]
                changed += 1
    return changed
