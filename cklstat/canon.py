"""Canonical local names.

Rules name roles ("the operand `a`", "the accumulated `result`") by the local variable that plays them in the pinned
tree.  A local's name is not part of the program's behaviour, so before anything is analysed every function's locals
are mapped back to the names they have in the pinned tree, by HOW THEY ARE DEFINED, not by how they are spelled:

  parameter            -> its position
  x = <expr>           -> the text of <expr>, with the locals it mentions already replaced by their canonical names
  a, b = <expr>        -> the same plus the position inside the target
  for x in <expr>      -> the text of <expr> (and the position inside a tuple target)
  with <expr> as x / except <T> as x / comprehension variables alike

`canon_table.json` (generated from /repo by tools/gen_canon.py) holds, per function, the ordered list of
(definition signature, name).  When a function of the analysed tree has a local with the same signature (the k-th one
with that signature for the k-th entry), the local is renamed to the recorded name in the syntax tree the rules see;
locals with no counterpart keep their spelling.  On the pinned tree this is the identity.  Findings keep their line
numbers; quoted code shows the canonical names.
"""
import ast
import json
import os

TABLE_PATH = os.path.join(os.path.dirname(os.path.abspath(__file__)), "canon_table.json")


def _own_nodes(fn):
    """nodes of fn's own scope in source order (nested function / class bodies are separate functions)"""
    out = []

    def visit(n):
        for ch in ast.iter_child_nodes(n):
            if isinstance(ch, (ast.FunctionDef, ast.AsyncFunctionDef, ast.ClassDef)):
                continue
            out.append(ch)
            visit(ch)

    visit(fn)
    return out


def _text(e, mapping, local_names):
    """source text of e with locals replaced by their canonical name ('?' when not yet known)"""
    class R(ast.NodeTransformer):
        def visit_Name(self, n):
            if n.id in mapping:
                return ast.copy_location(ast.Name(id=mapping[n.id], ctx=n.ctx), n)
            if n.id in local_names:
                return ast.copy_location(ast.Name(id="_", ctx=n.ctx), n)
            return n
    import copy
    try:
        return " ".join(ast.unparse(R().visit(copy.deepcopy(e))).split())
    except Exception:
        return "?"


def _targets(t, path=()):
    """(Name node, position path) for every name bound by an assignment / loop target"""
    if isinstance(t, ast.Name):
        yield t, path
    elif isinstance(t, (ast.Tuple, ast.List)):
        for i, e in enumerate(t.elts):
            yield from _targets(e, path + (i,))
    elif isinstance(t, ast.Starred):
        yield from _targets(t.value, path + ("*",))


def bindings(fn):
    """[(name, [(kind, expr-or-None, path), ..])] in order of first binding (tree order of the normalised tree); every
    binding of a name is listed, so a local is recognised by ANY of its definitions"""
    a = fn.args
    order = []
    binds = {}

    def add(name, kind, expr, path):
        if name not in binds:
            binds[name] = []
            order.append(name)
        binds[name].append((kind, expr, path))

    for i, p in enumerate(a.posonlyargs + a.args):
        add(p.arg, "param", None, (i,))
    for p in a.kwonlyargs:
        add(p.arg, "kwonly", None, (p.arg,))
    if a.vararg:
        add(a.vararg.arg, "vararg", None, ())
    if a.kwarg:
        add(a.kwarg.arg, "kwarg", None, ())
    params = set(order)
    skip = set()
    for n in _own_nodes(fn):
        if isinstance(n, (ast.Global, ast.Nonlocal)):
            skip.update(n.names)
    for n in _own_nodes(fn):
        evs = []
        if isinstance(n, ast.Assign):
            for t in n.targets:
                for nm, path in _targets(t):
                    evs.append((nm.id, "assign", n.value, path))
        elif isinstance(n, ast.AnnAssign) and n.value is not None:
            for nm, path in _targets(n.target):
                evs.append((nm.id, "assign", n.value, path))
        elif isinstance(n, ast.AugAssign) and isinstance(n.target, ast.Name):
            evs.append((n.target.id, "aug", n.value, ()))
        elif isinstance(n, ast.NamedExpr):
            evs.append((n.target.id, "assign", n.value, ()))
        elif isinstance(n, (ast.For, ast.AsyncFor)):
            for nm, path in _targets(n.target):
                evs.append((nm.id, "for", n.iter, path))
        elif isinstance(n, ast.comprehension):
            for nm, path in _targets(n.target):
                evs.append((nm.id, "comp", n.iter, path))
        elif isinstance(n, ast.withitem) and n.optional_vars is not None:
            for nm, path in _targets(n.optional_vars):
                evs.append((nm.id, "with", n.context_expr, path))
        elif isinstance(n, ast.ExceptHandler) and n.name:
            evs.append((n.name, "except", n.type, ()))
        for name, kind, expr, path in evs:
            if name in skip or name in params:
                continue
            add(name, kind, expr, path)
    return [(nm, binds[nm]) for nm in order]


def _weak(e):
    if isinstance(e, ast.Constant):
        return True
    if isinstance(e, (ast.List, ast.Tuple, ast.Set)) and not e.elts:
        return True
    if isinstance(e, ast.Dict) and not e.keys:
        return True
    if isinstance(e, ast.UnaryOp) and isinstance(e.operand, ast.Constant):
        return True
    if isinstance(e, ast.Call) and isinstance(e.func, ast.Name) and e.func.id in ("list", "dict", "set", "tuple") \
            and not e.args and not e.keywords:
        return True
    return False


def signatures(fn, table_names=None):
    """[(actual name, [signatures], canonical name)].  table_names: [(signature, name)] from the table (apply mode) or
    None (build mode: canonical = actual)."""
    binds = bindings(fn)
    local_names = {b[0] for b in binds}
    mapping = {}
    out = []
    avail = {}
    if table_names is not None:
        for sig, nm in table_names:
            avail.setdefault(sig, [])
            if nm not in avail[sig]:
                avail[sig].append(nm)
    taken = set()
    for name, events in binds:
        sigs, weak = [], []
        for kind, expr, path in events:
            txt = _text(expr, mapping, local_names) if expr is not None else ""
            sg = f"{kind}|{txt}|{','.join(map(str, path))}"
            if kind in ("assign", "aug") and _weak(expr):
                # `x = None`, `x = 0`, `x = []` say little about which variable x is: used only when the local
                # has no other definition
                if sg not in weak:
                    weak.append("weak:" + sg)
                continue
            if sg not in sigs:
                sigs.append(sg)
        if not sigs:
            sigs = weak
        canon = name
        if table_names is not None:
            for sg in sigs:
                cands = [c for c in avail.get(sg, []) if c not in taken]
                if cands:
                    canon = cands[0]
                    break
        taken.add(canon)
        mapping[name] = canon
        out.append((name, sigs, canon))
    return out


def _quals(tree):
    """(qualified name, FunctionDef) for every function in a module tree"""
    def rec(body, prefix):
        for st in body:
            if isinstance(st, (ast.FunctionDef, ast.AsyncFunctionDef)):
                q = prefix + st.name
                yield q, st
                yield from rec(st.body, q + ".<locals>.")
            elif isinstance(st, ast.ClassDef):
                yield from rec(st.body, prefix + st.name + ".")
            elif isinstance(st, (ast.If, ast.Try, ast.With, ast.For, ast.While)):
                for fld in ("body", "orelse", "finalbody"):
                    yield from rec(getattr(st, fld, []) or [], prefix)
    yield from rec(tree.body, "")


def build(trees):
    """{module: {qual: [[signature, name], ..]}} from {module name: tree}"""
    table = {}
    for mod, tree in trees.items():
        t = {}
        for q, fn in _quals(tree):
            t[q] = [[sg, name] for name, sigs, _ in signatures(fn) for sg in sigs]
        table[mod] = t
    return table


_TABLE = None


def load_table():
    global _TABLE
    if _TABLE is None:
        try:
            with open(TABLE_PATH) as f:
                _TABLE = json.load(f)
        except (OSError, ValueError):
            _TABLE = {}
    return _TABLE


def apply(tree, module_name):
    """Rename locals of every function in `tree` to their canonical names (in place).  -> number of names changed"""
    table = load_table().get(module_name)
    if not table:
        return 0
    changed = 0
    for q, fn in _quals(tree):
        entries = table.get(q)
        if not entries:
            continue
        res = signatures(fn, entries)
        ren = {}
        canon_names = [c for _, _, c in res]
        for name, sig, canon in res:
            if canon != name:
                ren[name] = canon
        if not ren:
            continue
        # two different locals must never end up under one name: renames that would collide (with each other or with a
        # local that keeps its spelling) are dropped until the final naming is injective
        all_names = [name for name, _, _ in res]
        while True:
            final = {}
            for nm in all_names:
                final.setdefault(ren.get(nm, nm), []).append(nm)
            clash = [nm for tgt, srcs in final.items() if len(srcs) > 1 for nm in srcs if nm in ren]
            if not clash:
                break
            for nm in clash:
                del ren[nm]
        if not ren:
            continue
        own = set(id(n) for n in _own_nodes(fn))
        for n in ast.walk(fn):
            # nested functions that only read the outer local are renamed too, unless they bind the name themselves
            if isinstance(n, ast.Name) and n.id in ren:
                n.id = ren[n.id]
                changed += 1
            elif isinstance(n, ast.arg) and n.arg in ren and id(n) in own or \
                    (isinstance(n, ast.arg) and n.arg in ren and n in (fn.args.posonlyargs + fn.args.args + fn.args.kwonlyargs)):
                n.arg = ren[n.arg]
                changed += 1
            elif isinstance(n, ast.ExceptHandler) and n.name in ren:
                n.name = ren[n.name]
                changed += 1
    return changed


LEXER_API = {"hasNext", "next", "peek", "eat", "previous", "getPos", "getPosNext", "peekn", "peekOne", "matchIf",
             "match", "matchIdentifier"}


def name_cursor_parameters(tree):
    """A parameter that the canonical table does not know (a new helper) but on which the token-cursor API is called
    is the lexer: it gets the name the rules know it by.  -> number of functions touched"""
    n = 0
    for q, fn in _quals(tree):
        params = [a.arg for a in fn.args.posonlyargs + fn.args.args]
        if "lexer" in params:
            continue
        bound = {x.id for x in ast.walk(fn) if isinstance(x, ast.Name) and isinstance(x.ctx, (ast.Store, ast.Del))}
        if "lexer" in bound:
            continue
        uses = {}
        for c in ast.walk(fn):
            if isinstance(c, ast.Call) and isinstance(c.func, ast.Attribute) and isinstance(c.func.value, ast.Name) \
                    and c.func.value.id in params and c.func.attr in LEXER_API:
                uses.setdefault(c.func.value.id, set()).add(c.func.attr)
        cands = [p for p, m in uses.items() if len(m) >= 1 and (m & {"peekn", "peekOne", "matchIf", "matchIdentifier",
                                                                     "getPosNext", "hasNext"})]
        if len(cands) != 1:
            continue
        old = cands[0]
        for x in ast.walk(fn):
            if isinstance(x, ast.Name) and x.id == old:
                x.id = "lexer"
            elif isinstance(x, ast.arg) and x.arg == old:
                x.arg = "lexer"
        n += 1
    return n
