"""E3: statement-level control-flow graph per function.

Built in continuation-passing style so that a `finally` body is wired onto every
way out of its `try` (normal end, propagating exception, return, break, continue)
as a separate copy, exactly as Python runs it.  Branch nodes keep their condition;
edges carry labels:

  next            fall through
  true / false    outcome of a `test` node (if / while / assert / comprehension-free conditions)
  iter / done     `for` header: next element / exhausted
  exc             the statement raised (only generated for nodes that may raise, see may_raise)
  handler:<i>     exception dispatch into the i-th `except` clause
  unhandled       exception not matched by any clause of this try

Special nodes: entry, exit (return / fall off the end), raise (exception leaves the function).
"""
import ast
import itertools


class N:
    _ids = itertools.count()

    def __init__(self, kind, node=None, origin=None):
        self.id = next(N._ids)
        self.kind = kind          # entry exit raise stmt test for dispatch handler return join
        self.ast = node
        self.origin = origin if origin is not None else node
        self.succ = []            # [(label, N)]

    def add(self, label, target):
        self.succ.append((label, target))
        return self

    def __repr__(self):
        txt = ""
        if self.ast is not None:
            try:
                txt = " " + " ".join(ast.unparse(self.ast).split())[:60]
            except Exception:
                txt = " " + type(self.ast).__name__
        return f"<{self.id}:{self.kind}{txt}>"


def contains_call(node):
    for n in ast.walk(node):
        if isinstance(n, (ast.Call, ast.Subscript)):
            return True
        if isinstance(n, ast.BinOp) and isinstance(n.op, (ast.Div, ast.FloorDiv, ast.Mod)):
            return True
    return False


class Ctx:
    __slots__ = ("next", "brk", "cont", "ret", "exc")

    def __init__(self, next, brk, cont, ret, exc):
        self.next, self.brk, self.cont, self.ret, self.exc = next, brk, cont, ret, exc

    def replace(self, **kw):
        c = Ctx(self.next, self.brk, self.cont, self.ret, self.exc)
        for k, v in kw.items():
            setattr(c, k, v)
        return c


class CFG:
    def __init__(self, fn_node, implicit_exc=True):
        self.fn = fn_node
        self.implicit_exc = implicit_exc
        self.nodes = []
        self.entry = self._n("entry")
        self.exit = self._n("exit")
        self.raise_exit = self._n("raise")
        ctx = Ctx(self.exit, None, None, self.exit, self.raise_exit)
        first = self.block(fn_node.body, ctx)
        self.entry.add("next", first)
        self._prune()

    def _n(self, kind, node=None, origin=None):
        n = N(kind, node, origin)
        self.nodes.append(n)
        return n

    # ------------------------------------------------------------------
    def block(self, stmts, ctx):
        """Entry node of a statement list whose normal continuation is ctx.next."""
        nxt = ctx.next
        for st in reversed(stmts):
            nxt = self.stmt(st, ctx.replace(next=nxt))
        return nxt

    def _raising(self, n, node, ctx):
        if self.implicit_exc and node is not None and contains_call(node):
            n.add("exc", ctx.exc)

    def stmt(self, st, ctx):
        if isinstance(st, ast.If):
            t = self._n("test", st.test, st)
            t.add("true", self.block(st.body, ctx))
            t.add("false", self.block(st.orelse, ctx) if st.orelse else ctx.next)
            self._raising(t, st.test, ctx)
            return t
        if isinstance(st, ast.While):
            t = self._n("test", st.test, st)
            after = self.block(st.orelse, ctx) if st.orelse else ctx.next
            body = self.block(st.body, ctx.replace(next=t, brk=ctx.next, cont=t))
            t.add("true", body)
            const_true = isinstance(st.test, ast.Constant) and bool(st.test.value)
            if not const_true:
                t.add("false", after)
            self._raising(t, st.test, ctx)
            return t
        if isinstance(st, ast.For):
            h = self._n("for", st, st)
            after = self.block(st.orelse, ctx) if st.orelse else ctx.next
            body = self.block(st.body, ctx.replace(next=h, brk=ctx.next, cont=h))
            h.add("iter", body)
            h.add("done", after)
            self._raising(h, st.iter, ctx)
            if self.implicit_exc and not contains_call(st.iter):
                h.add("exc", ctx.exc)       # iteration itself may raise
            return h
        if isinstance(st, ast.Return):
            n = self._n("return", st, st)
            n.add("next", ctx.ret)
            if st.value is not None:
                self._raising(n, st.value, ctx)
            return n
        if isinstance(st, ast.Raise):
            n = self._n("stmt", st, st)
            n.add("exc", ctx.exc)
            return n
        if isinstance(st, ast.Break):
            n = self._n("stmt", st, st)
            n.add("next", ctx.brk)
            return n
        if isinstance(st, ast.Continue):
            n = self._n("stmt", st, st)
            n.add("next", ctx.cont)
            return n
        if isinstance(st, ast.Try):
            return self.try_(st, ctx)
        if isinstance(st, ast.With):
            n = self._n("stmt", st.items[0].context_expr, st)
            n.kind = "with"
            n.add("next", self.block(st.body, ctx))
            n.add("exc", ctx.exc)
            return n
        if isinstance(st, (ast.FunctionDef, ast.ClassDef)):
            n = self._n("stmt", None, st)
            n.kind = "def"
            n.add("next", ctx.next)
            return n
        if isinstance(st, ast.Assert):
            t = self._n("test", st.test, st)
            t.add("true", ctx.next)
            t.add("false", ctx.exc)
            return t
        n = self._n("stmt", st, st)
        n.add("next", ctx.next)
        self._raising(n, st, ctx)
        return n

    def try_(self, st, ctx):
        if st.finalbody:
            def fin(cont):
                if cont is None:
                    return None
                return self.block(st.finalbody, ctx.replace(next=cont))
            outer = Ctx(fin(ctx.next), fin(ctx.brk), fin(ctx.cont), fin(ctx.ret), fin(ctx.exc))
        else:
            outer = ctx
        after_else = self.block(st.orelse, outer) if st.orelse else outer.next
        if st.handlers:
            disp = self._n("dispatch", None, st)
            catch_all = False
            for i, h in enumerate(st.handlers):
                hn = self._n("handler", h.type, h)
                hn.add("next", self.block(h.body, outer))
                disp.add(f"handler:{i}", hn)
                if h.type is None or (isinstance(h.type, ast.Name) and h.type.id == "BaseException"):
                    catch_all = True
            if not catch_all:
                disp.add("unhandled", outer.exc)
            body_exc = disp
        else:
            body_exc = outer.exc
        body_ctx = outer.replace(next=after_else, exc=body_exc)
        return self.block(st.body, body_ctx)

    def _prune(self):
        seen, todo = set(), [self.entry]
        while todo:
            n = todo.pop()
            if n.id in seen:
                continue
            seen.add(n.id)
            for _, t in n.succ:
                if t is not None:
                    todo.append(t)
        self.nodes = [n for n in self.nodes if n.id in seen or n in (self.exit, self.raise_exit)]
        for n in self.nodes:
            n.succ = [(l, t) for l, t in n.succ if t is not None]
        self.pred = {n.id: [] for n in self.nodes}
        for n in self.nodes:
            for l, t in n.succ:
                self.pred.setdefault(t.id, []).append((l, n))

    # ------------------------------------------------------------------
    def paths(self, start=None, stop=None, edge_limit=1, max_paths=20000, follow=None):
        """Enumerate paths [(node, label_taken)...] from `start` to any terminal (exit/raise) or a node for
        which stop(node) is true.  Each edge is used at most edge_limit times per path."""
        start = start or self.entry
        out = []
        stack = [(start, [], {})]
        while stack:
            node, path, used = stack.pop()
            if (stop and stop(node) and path) or not node.succ:
                out.append(path + [(node, None)])
                if len(out) > max_paths:
                    raise OverflowError("path cap exceeded")
                continue
            for label, t in node.succ:
                if follow and not follow(node, label, t):
                    continue
                key = (node.id, label, t.id)
                c = used.get(key, 0)
                if c >= edge_limit:
                    continue
                u = dict(used)
                u[key] = c + 1
                stack.append((t, path + [(node, label)], u))
        return out

    def dataflow(self, init, transfer, join, bottom=None, edge_filter=None):
        """Forward worklist solver.  transfer(node, label, state_in) -> state_out for that edge.
        Returns {node.id: state at node entry}."""
        state = {self.entry.id: init}
        work = [self.entry]
        byid = {n.id: n for n in self.nodes}
        iters = 0
        while work:
            n = work.pop()
            iters += 1
            if iters > 200000:
                raise OverflowError("dataflow did not converge")
            s_in = state[n.id]
            for label, t in n.succ:
                if edge_filter and not edge_filter(n, label, t):
                    continue
                s_out = transfer(n, label, s_in)
                if s_out is None:
                    continue
                if t.id in state:
                    merged = join(state[t.id], s_out)
                    if merged != state[t.id]:
                        state[t.id] = merged
                        work.append(byid[t.id])
                else:
                    state[t.id] = s_out
                    work.append(byid[t.id])
        return state
