"""Free-name resolution for the bundled .ckl modules (built on the E8 tokenizer).

A module is evaluated in a child of the root environment.  In the default (non-legacy) configuration the root holds
the few names get_base_environment puts there plus everything `base.ckl` imports unqualified (Sys and Core, with the
names Core itself imported).  A function of module M can therefore use: names bound anywhere in M (definitions,
parameters, loop and comprehension variables, import aliases, natives bound with bind_native), and the root names.
Any other identifier in load position is a 'Symbol not defined' error waiting for its first call.

The resolver is scope-insensitive inside a module (a name bound anywhere in M counts everywhere in M): it cannot
prove that every use is in scope, but a name that NO binding in the module or the root provides is certainly
unresolved - which is what a missing import looks like.
"""
from . import cklsrc

# words of the predicate / iteration syntax that the scanner hands over as identifiers
SYNTAX_WORDS = {"starts", "ends", "with", "contains", "matches", "empty", "zero", "negative", "numerical",
                "alphanumerical", "date", "time", "hour", "string", "int", "decimal", "boolean", "pattern", "func",
                "input", "output", "list", "set", "map", "object", "node", "None", "all", "keys", "values",
                "entries", "unqualified", "import", "TRUE", "FALSE", "NULL", "class", "exact", "min_len", "max_len"}
ROOT_LITERALS = {"checkerlang_secure_mode", "MAXINT", "MININT", "NULL", "bind_native"}


def _strip(name):
    return name[:-3] if name.endswith("...") else name


def module_name_of(fn):
    return fn[:-4]


def bound_names(toks):
    """Every name some construct of the module binds (scope-insensitive), and the requires it contains:
    -> (names, [(module, mode, {orig: alias} | None, as_name | None)])"""
    names = set()
    requires = []
    n = len(toks)
    i = 0
    while i < n:
        t = toks[i]
        if t.is_id("def") and i + 1 < n:
            j = i + 1
            if toks[j].is_id("class") and j + 1 < n:
                j += 1
            if toks[j].kind == "id":
                names.add(_strip(toks[j].text))
                if j + 1 < n and toks[j + 1].is_p("("):
                    params, _, _ = cklsrc.parse_params(toks, j + 1)
                    names.update(_strip(p) for p in params)
            elif toks[j].is_p("["):
                k = j + 1
                while k < n and not toks[k].is_p("]"):
                    if toks[k].kind == "id":
                        names.add(_strip(toks[k].text))
                    k += 1
        elif t.is_id("fn") and i + 1 < n and toks[i + 1].is_p("("):
            params, _, _ = cklsrc.parse_params(toks, i + 1)
            names.update(_strip(p) for p in params)
        elif t.is_id("for") and i + 1 < n:
            j = i + 1
            if toks[j].is_p("["):
                while j < n and not toks[j].is_p("]"):
                    if toks[j].kind == "id":
                        names.add(toks[j].text)
                    j += 1
            else:
                while j < n and toks[j].kind == "id" and not toks[j].is_id("in"):
                    names.add(toks[j].text)
                    j += 1
                    if j < n and toks[j].is_p(","):
                        j += 1
        elif t.is_id("bind_native") and i + 2 < n and toks[i + 1].is_p("(") and toks[i + 2].kind == "str":
            names.add(toks[i + 2].text)
            if i + 4 < n and toks[i + 3].is_p(",") and toks[i + 4].kind == "str":
                names.add(toks[i + 4].text)
        elif t.is_id("require") and i + 1 < n and toks[i + 1].kind == "id":
            mod = toks[i + 1].text
            j = i + 2
            if j < n and toks[j].is_id("unqualified"):
                requires.append((mod, "unqualified", None, None))
            elif j + 1 < n and toks[j].is_id("import") and toks[j + 1].is_p("["):
                k = j + 2
                sym = {}
                while k < n and not toks[k].is_p("]"):
                    if toks[k].kind == "id":
                        orig = toks[k].text
                        alias = orig
                        if k + 2 < n and toks[k + 1].is_id("as") and toks[k + 2].kind == "id":
                            alias = toks[k + 2].text
                            k += 2
                        sym[orig] = alias
                    k += 1
                requires.append((mod, "import", sym, None))
                names.update(sym.values())
            elif j + 1 < n and toks[j].is_id("as") and toks[j + 1].kind == "id":
                requires.append((mod, "as", None, toks[j + 1].text))
                names.add(toks[j + 1].text)
            else:
                requires.append((mod, "plain", None, None))
                names.add(mod)
        i += 1
    return names, requires


def top_level_names(toks):
    """Names the module's own top-level code binds (what `unqualified` exports, underscore names excluded)."""
    names = set()
    depth = 0
    n = len(toks)
    i = 0
    # function bodies are skipped: a body is what follows `def NAME(params)` up to the end of its statement
    funcs = cklsrc.functions(toks)
    inside = set()
    for f in funcs:
        for t in f.body:
            inside.add(id(t))
    while i < n:
        t = toks[i]
        if id(t) in inside:
            i += 1
            continue
        if t.is_id("def") and i + 1 < n:
            j = i + 1
            if toks[j].is_id("class") and j + 1 < n:
                j += 1
            if toks[j].kind == "id":
                names.add(_strip(toks[j].text))
            elif toks[j].is_p("["):
                k = j + 1
                while k < n and not toks[k].is_p("]"):
                    if toks[k].kind == "id":
                        names.add(toks[k].text)
                    k += 1
        elif t.is_id("bind_native") and i + 2 < n and toks[i + 1].is_p("(") and toks[i + 2].kind == "str":
            names.add(toks[i + 2].text)
            if i + 4 < n and toks[i + 3].is_p(",") and toks[i + 4].kind == "str":
                names.add(toks[i + 4].text)
        i += 1
    return names


def exported(fn, mods, seen=None):
    """public names `require <module> unqualified` brings in: its top-level definitions plus what it imported itself"""
    seen = seen or set()
    if fn in seen or fn not in mods:
        return set()
    seen.add(fn)
    toks = mods[fn]
    names = set(top_level_names(toks))
    _, requires = bound_names(_top_level_tokens(toks))
    for mod, mode, sym, as_name in requires:
        if mode == "unqualified":
            names |= exported(mod.lower() + ".ckl", mods, seen)
        elif mode == "import":
            names |= set(sym.values())
    return {x for x in names if not x.startswith("_")}


def _top_level_tokens(toks):
    funcs = cklsrc.functions(toks)
    inside = set()
    for f in funcs:
        if f.parent is None:
            for t in f.body:
                inside.add(id(t))
    return [t for t in toks if id(t) not in inside]


def root_names(mods):
    return ROOT_LITERALS | exported("base.ckl", mods)


def loads(toks):
    """Identifier tokens in load position: [(token, index)]"""
    out = []
    n = len(toks)
    depth_stack = []       # open brackets, to recognise named arguments and object literal members
    i = 0
    in_require = False
    while i < n:
        t = toks[i]
        if t.kind == "p":
            if t.text in cklsrc.OPEN:
                depth_stack.append(t.text)
            elif t.text in cklsrc.CLOSE and depth_stack:
                depth_stack.pop()
            if t.text == ";":
                in_require = False
            i += 1
            continue
        if t.kind != "id":
            i += 1
            continue
        name = _strip(t.text)
        prev = toks[i - 1] if i else None
        nxt = toks[i + 1] if i + 1 < n else None
        if t.is_id("require"):
            in_require = True
        if in_require:
            # `require Mod [as x | unqualified | import [a as b]]`: nothing here is a variable load, except that a
            # require with a computed module spec is not used by the bundled modules
            i += 1
            continue
        if name in cklsrc.KEYWORDS or name in SYNTAX_WORDS:
            i += 1
            continue
        if prev is not None and (prev.is_p("->") or prev.is_id("def") or prev.is_id("fn") or prev.is_id("for")
                                 or prev.is_id("class")):
            i += 1
            continue
        if prev is not None and prev.is_id("as"):
            i += 1
            continue
        # named argument / object member / parameter default: `name =` inside (..) or <* .. *>
        if nxt is not None and nxt.is_p("=") and depth_stack and depth_stack[-1] in ("(", "<*"):
            i += 1
            continue
        # object literal method shorthand: <* name(self) ... *>
        if nxt is not None and nxt.is_p("(") and depth_stack and depth_stack[-1] == "<*" and prev is not None \
                and (prev.is_p("<*") or prev.is_p(",")):
            i += 1
            continue
        # loop variables between `for` and `in`
        k = i - 1
        is_loop_var = False
        while k >= 0 and (toks[k].kind == "id" and not toks[k].is_id("in") or toks[k].is_p(",") or toks[k].is_p("[")
                          or toks[k].is_p("]")):
            if toks[k].is_id("for"):
                is_loop_var = True
                break
            if toks[k].kind == "id" and toks[k].text in cklsrc.KEYWORDS and not toks[k].is_id("for"):
                break
            k -= 1
        if is_loop_var:
            i += 1
            continue
        out.append((t, i))
        i += 1
    return out


def unresolved(model_ckl):
    """{module file: [(name, line)]} identifiers no binding in the module and no root name provides (non-legacy)."""
    mods = {}
    for fn, (src, _) in model_ckl.items():
        mods[fn] = cklsrc.tokenize(src)
    root = root_names(mods)
    res = {}
    for fn, toks in sorted(mods.items()):
        if fn in ("legacy.ckl",):
            continue
        names, requires = bound_names(toks)
        avail = set(names) | root
        for mod, mode, sym, as_name in requires:
            if mode == "unqualified":
                avail |= exported(mod.lower() + ".ckl", mods)
        bad = []
        seen = set()
        for t, i in loads(toks):
            nm = _strip(t.text)
            if nm in avail or nm in seen:
                continue
            seen.add(nm)
            bad.append((nm, t.line))
        res[fn] = bad
    return res, root
