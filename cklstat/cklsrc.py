"""E8: an independent front end for .ckl library sources.

Tokenizer (strings with escapes, # comments, identifiers incl. rest-arg `name...`,
numbers, patterns, multi-character punctuation) and a skeleton parser that finds
function definitions (`def NAME(params) body`, nested ones included) and statement
boundaries.  The repository's own lexer/parser are deliberately NOT used, so a change
to them can neither blind nor break the checks on library code.
"""
import re

PUNCT = ["<<<", ">>>", "<<", ">>", "<*", "*>", "!>", "->", "=>", "==", "!=", "<>", "<=", ">=",
         "+=", "-=", "*=", "/=", "%=", "...", "(", ")", "[", "]", ",", ";", "+", "-", "*", "/", "%",
         "<", ">", "="]
KEYWORDS = {"if", "then", "elif", "else", "and", "or", "not", "is", "in", "def", "fn", "for", "while",
            "do", "end", "finally", "catch", "break", "continue", "return", "error", "require", "as",
            "also"}


class Tok:
    __slots__ = ("kind", "text", "line")

    def __init__(self, kind, text, line):
        self.kind, self.text, self.line = kind, text, line

    def is_p(self, text):
        return self.kind == "p" and self.text == text

    def is_id(self, text=None):
        return self.kind == "id" and (text is None or self.text == text)

    def __repr__(self):
        return f"{self.kind}:{self.text}@{self.line}"


class CklTokenError(Exception):
    pass


def tokenize(src):
    i, n, out, line = 0, len(src), [], 1
    while i < n:
        c = src[i]
        if c == "\n":
            line += 1
            i += 1
            continue
        if c in " \t\r":
            i += 1
            continue
        if c == "#":
            while i < n and src[i] != "\n":
                i += 1
            continue
        if c in "\"'":
            q, j, buf, l0 = c, i + 1, "", line
            while j < n and src[j] != q:
                if src[j] == "\\":
                    buf += src[j:j + 2]
                    j += 2
                else:
                    if src[j] == "\n":
                        line += 1
                    buf += src[j]
                    j += 1
            if j >= n:
                raise CklTokenError(f"unterminated string starting line {l0}")
            out.append(Tok("str", buf, l0))
            i = j + 1
            continue
        if src.startswith("//", i):
            j = src.find("//", i + 2)
            if j < 0:
                raise CklTokenError(f"unterminated pattern line {line}")
            out.append(Tok("pat", src[i + 2:j], line))
            i = j + 2
            continue
        if c.isdigit():
            m = re.match(r"0x[0-9a-fA-F_]+|0b[01_]+|[0-9][0-9_]*(\.[0-9_]*)?", src[i:])
            out.append(Tok("num", m.group(0), line))
            i += len(m.group(0))
            continue
        for p in PUNCT:
            if src.startswith(p, i):
                out.append(Tok("p", p, line))
                i += len(p)
                break
        else:
            m = re.match(r"[A-Za-z_][A-Za-z_0-9]*(\.\.\.)?", src[i:])
            if not m:
                raise CklTokenError(f"cannot tokenize at line {line}: {src[i:i + 20]!r}")
            out.append(Tok("id", m.group(0), line))
            i += len(m.group(0))
    return out


OPEN = {"(": ")", "[": "]", "<<": ">>", "<<<": ">>>", "<*": "*>"}
CLOSE = set(OPEN.values())


class CklFunc:
    def __init__(self, name, params, defaults, body, line, parent=None):
        self.name, self.params, self.defaults, self.body, self.line, self.parent = \
            name, params, defaults, body, line, parent
        self.children = []

    @property
    def qual(self):
        return (self.parent.qual + "." if self.parent else "") + self.name

    def __repr__(self):
        return f"<ckl def {self.qual}({', '.join(self.params)})>"


def _skip_group(toks, j):
    """toks[j] is an opener; return index just after its matching closer."""
    depth = 0
    while j < len(toks):
        t = toks[j]
        if t.kind == "p" and t.text in OPEN:
            depth += 1
        elif t.kind == "p" and t.text in CLOSE:
            depth -= 1
            if depth == 0:
                return j + 1
        j += 1
    raise CklTokenError("unbalanced group")


def _skip_block(toks, j):
    """toks[j] is `do`; return index just after the matching `end`."""
    depth = 0
    while j < len(toks):
        t = toks[j]
        if t.is_id("do"):
            depth += 1
        elif t.is_id("end"):
            depth -= 1
            if depth == 0:
                return j + 1
        j += 1
    raise CklTokenError("unbalanced do/end")


def _expr_end(toks, j):
    """End (exclusive) of an expression-bodied definition starting at j: up to the `;` at depth 0."""
    depth = 0
    while j < len(toks):
        t = toks[j]
        if t.kind == "p" and t.text in OPEN or t.is_id("do"):
            depth += 1
        elif t.kind == "p" and t.text in CLOSE or t.is_id("end"):
            if depth == 0:
                return j
            depth -= 1
        elif t.is_p(";") and depth == 0:
            return j
        j += 1
    return j


def parse_params(toks, j):
    """toks[j] is '('.  Returns (params, defaults{name: tokens}, index after ')')."""
    end = _skip_group(toks, j)
    inner = toks[j + 1:end - 1]
    params, defaults = [], {}
    k = 0
    while k < len(inner):
        t = inner[k]
        if t.kind != "id":
            raise CklTokenError(f"parameter expected line {t.line}")
        name = t.text[:-3] if t.text.endswith("...") else t.text
        params.append(name)
        k += 1
        if k < len(inner) and inner[k].is_p("="):
            k += 1
            s = k
            depth = 0
            while k < len(inner) and not (depth == 0 and inner[k].is_p(",")):
                if inner[k].kind == "p" and inner[k].text in OPEN:
                    depth += 1
                elif inner[k].kind == "p" and inner[k].text in CLOSE:
                    depth -= 1
                k += 1
            defaults[name] = inner[s:k]
        if k < len(inner):
            if not inner[k].is_p(","):
                raise CklTokenError(f"',' expected in parameter list line {inner[k].line}")
            k += 1
    return params, defaults, end


def functions(toks, parent=None):
    """All `def NAME(params) body` definitions (recursively); `fn(params) body` lambdas are part of
    the enclosing body."""
    res = []
    i = 0
    while i < len(toks):
        t = toks[i]
        if t.is_id("def") and i + 2 < len(toks) and toks[i + 1].kind == "id" and toks[i + 2].is_p("("):
            name = toks[i + 1].text
            params, defaults, j = parse_params(toks, i + 2)
            if j < len(toks) and toks[j].is_id("do"):
                k = _skip_block(toks, j)
                body = toks[j + 1:k - 1]
            else:
                k = _expr_end(toks, j)
                body = toks[j:k]
            f = CklFunc(name, params, defaults, body, t.line, parent)
            f.children = functions(body, f)
            res.append(f)
            res.extend(f.children)
            i = k
        else:
            i += 1
    return res


def own_body(func):
    """Tokens of the function's body with nested `def NAME(...) ...` definitions removed."""
    toks, out, i = func.body, [], 0
    while i < len(toks):
        t = toks[i]
        if t.is_id("def") and i + 2 < len(toks) and toks[i + 1].kind == "id" and toks[i + 2].is_p("("):
            _, _, j = parse_params(toks, i + 2)
            if j < len(toks) and toks[j].is_id("do"):
                i = _skip_block(toks, j)
            else:
                i = _expr_end(toks, j)
            continue
        out.append(t)
        i += 1
    return out


def bind_native_calls(toks):
    """[(native, alias or None, line)] for literal bind_native("n"[, "a"]) calls; plus a list of
    non-literal uses."""
    lit, nonlit = [], []
    for i, t in enumerate(toks):
        if t.is_id("bind_native"):
            if i + 1 < len(toks) and toks[i + 1].is_p("("):
                end = _skip_group(toks, i + 1)
                inner = toks[i + 2:end - 1]
                if len(inner) == 1 and inner[0].kind == "str":
                    lit.append((inner[0].text, None, t.line))
                elif len(inner) == 3 and inner[0].kind == "str" and inner[1].is_p(",") and inner[2].kind == "str":
                    lit.append((inner[0].text, inner[2].text, t.line))
                else:
                    nonlit.append((t.line, " ".join(x.text for x in inner)))
            else:
                nonlit.append((t.line, "bind_native used as a value"))
    return lit, nonlit
