"""Core of the static checker: source model (E1), findings, obligations, runner.

Nothing under the analysed repository is imported or executed; sources are read
and parsed with the standard library `ast` module only.
"""
import ast
import hashlib
import json
import os
import sys
import time
import traceback

VERIF = os.path.dirname(os.path.dirname(os.path.abspath(__file__)))


class AnalysisError(Exception):
    """The analysis cannot be carried out (anchor vanished, shape not understood,
    instance floor not reached).  Never a VIOLATION, never a silent pass: exit 2."""

    def __init__(self, prop, anchor, why):
        super().__init__(f"property={prop} anchor={anchor} {why}")
        self.prop, self.anchor, self.why = prop, anchor, why


def norm(node):
    """Normalised source text of an AST node (formatting/line independent)."""
    if node is None:
        return ""
    if isinstance(node, str):
        return " ".join(node.split())
    try:
        return " ".join(ast.unparse(node).split())
    except Exception:
        return type(node).__name__


class Func:
    """A function or method of the analysed tree."""

    def __init__(self, module, cls, node):
        self.module = module          # Module
        self.cls = cls                # Class or None
        self.node = node              # ast.FunctionDef
        self.name = node.name
        self.qual = (cls.name + "." if cls else "") + node.name
        self.file = module.rel

    def __repr__(self):
        return f"<Func {self.file}:{self.qual}>"

    @property
    def params(self):
        a = self.node.args
        return [x.arg for x in a.posonlyargs + a.args]


class Class:
    def __init__(self, module, node):
        self.module = module
        self.node = node
        self.name = node.name
        self.base_names = [norm(b) for b in node.bases]
        self.methods = {}
        self.class_attrs = {}       # name -> ast value
        self.decorators = [norm(d) for d in node.decorator_list]
        for st in node.body:
            if isinstance(st, ast.FunctionDef):
                self.methods[st.name] = Func(module, self, st)
            elif isinstance(st, ast.Assign):
                for t in st.targets:
                    if isinstance(t, ast.Name):
                        self.class_attrs[t.id] = st.value

    def __repr__(self):
        return f"<Class {self.name}>"


class Module:
    def __init__(self, root, rel):
        self.rel = rel
        self.path = os.path.join(root, rel)
        with open(self.path, "rb") as f:
            raw = f.read()
        self.digest = hashlib.sha256(raw).hexdigest()
        self.src = raw.decode("utf-8")
        self.tree = ast.parse(self.src, filename=rel)
        self.name = os.path.splitext(os.path.basename(rel))[0]
        # one spelling for `if not X .. else ..` / `x = x + e` (normal.py); then locals are mapped back to the names
        # they have in the pinned tree, by their definitions (canon.py)
        from . import canon, normal
        normal.normalise(self.tree)
        self.canon_renamed = canon.apply(self.tree, self.name)
        if self.name == "parser":
            canon.name_cursor_parameters(self.tree)
        self.classes = {}
        self.funcs = {}
        self.imports = {}        # local name -> dotted origin ("os", "ckl.values.ValueInt")
        self.globals_assigned = {}   # module-level name -> ast value (last)
        for st in self.tree.body:
            if isinstance(st, ast.ClassDef):
                self.classes[st.name] = Class(self, st)
            elif isinstance(st, ast.FunctionDef):
                self.funcs[st.name] = Func(self, None, st)
            elif isinstance(st, ast.Assign):
                for t in st.targets:
                    if isinstance(t, ast.Name):
                        self.globals_assigned[t.id] = st.value
        # module-level and class-level statements as a synthetic function "<module>"
        top = []
        for st in self.tree.body:
            if isinstance(st, ast.ClassDef):
                top.extend(x for x in st.body if not isinstance(x, (ast.FunctionDef, ast.ClassDef)))
            elif not isinstance(st, ast.FunctionDef):
                top.append(st)
        synth = ast.FunctionDef(
            name="<module>", body=top or [ast.Pass()], decorator_list=[], returns=None, type_comment=None,
            args=ast.arguments(posonlyargs=[], args=[], vararg=None, kwonlyargs=[], kw_defaults=[],
                               kwarg=None, defaults=[]), lineno=1, col_offset=0, end_lineno=1, end_col_offset=0)
        if hasattr(ast, "TypeVar"):
            synth.type_params = []
        self.toplevel = Func(self, None, synth)
        for n in ast.walk(self.tree):
            if isinstance(n, ast.Import):
                for a in n.names:
                    self.imports[a.asname or a.name.split(".")[0]] = a.name if a.asname else a.name.split(".")[0]
            elif isinstance(n, ast.ImportFrom):
                for a in n.names:
                    self.imports[a.asname or a.name] = (n.module or "") + "." + a.name

    def all_funcs(self, toplevel=False):
        if toplevel:
            yield self.toplevel
        for f in self.funcs.values():
            yield f
        for c in self.classes.values():
            for f in c.methods.values():
                yield f


class Model:
    """E1: every Python module under src/ckl plus the list of bundled .ckl modules."""

    PKG = "src/ckl"

    def __init__(self, repo):
        self.repo = repo
        self.modules = {}
        pkg = os.path.join(repo, self.PKG)
        if not os.path.isdir(pkg):
            raise AnalysisError("*", self.PKG, "package directory missing")
        for fn in sorted(os.listdir(pkg)):
            if fn.endswith(".py"):
                rel = f"{self.PKG}/{fn}"
                try:
                    m = Module(repo, rel)
                except SyntaxError as e:
                    raise AnalysisError("*", rel, f"does not parse: {e}")
                self.modules[m.name] = m
        self.ckl_modules = {}
        moddir = os.path.join(pkg, "modules")
        if os.path.isdir(moddir):
            for fn in sorted(os.listdir(moddir)):
                if fn.endswith(".ckl"):
                    with open(os.path.join(moddir, fn), "rb") as f:
                        raw = f.read()
                    self.ckl_modules[fn] = (raw.decode("utf-8"), hashlib.sha256(raw).hexdigest())
        self.classes = {}
        for m in self.modules.values():
            for c in m.classes.values():
                self.classes[c.name] = c

    # ---- lookups that fail closed -------------------------------------------------
    def module(self, prop, name):
        if name not in self.modules:
            raise AnalysisError(prop, f"{self.PKG}/{name}.py", "module missing")
        return self.modules[name]

    def cls(self, prop, name):
        if name not in self.classes:
            raise AnalysisError(prop, f"class {name}", "class missing")
        return self.classes[name]

    def method(self, prop, cname, mname):
        c = self.cls(prop, cname)
        f = self.find_method(c, mname)
        if f is None:
            raise AnalysisError(prop, f"{cname}.{mname}", "method missing")
        return f

    def func(self, prop, modname, fname):
        m = self.module(prop, modname)
        if fname not in m.funcs:
            raise AnalysisError(prop, f"{modname}.{fname}", "function missing")
        return m.funcs[fname]

    def mro(self, c):
        out, seen, todo = [], set(), [c]
        while todo:
            k = todo.pop(0)
            if k.name in seen:
                continue
            seen.add(k.name)
            out.append(k)
            for b in k.base_names:
                b = b.split(".")[-1]
                if b in self.classes:
                    todo.append(self.classes[b])
        return out

    def find_method(self, c, mname):
        for k in self.mro(c):
            if mname in k.methods:
                return k.methods[mname]
        return None

    def subclasses(self, base):
        return [c for c in self.classes.values()
                if c.name != base and any(k.name == base for k in self.mro(c))]

    def all_funcs(self, toplevel=False):
        for m in self.modules.values():
            yield from m.all_funcs(toplevel)

    def files_digest(self):
        d = {m.rel: m.digest for m in self.modules.values()}
        for fn, (_, dg) in self.ckl_modules.items():
            d[f"{self.PKG}/modules/{fn}"] = dg
        return d


class Finding:
    def __init__(self, rule, func, node, msg, expr=None, file=None, line=None):
        self.rule = rule
        if isinstance(func, Func):
            self.file, self.func = func.file, func.qual
        else:
            self.file, self.func = file or "?", func or "?"
        if file:
            self.file = file
        self.expr = norm(expr if expr is not None else node)
        self.line = line if line is not None else getattr(node, "lineno", 0)
        self.msg = msg

    @property
    def key(self):
        return f"{self.rule}|{self.file}|{self.func}|{self.expr}"

    def to_json(self):
        return {"rule": self.rule, "file": self.file, "function": self.func,
                "expression": self.expr, "line": self.line, "message": self.msg,
                "key": self.key}

    def __str__(self):
        return f"{self.file}:{self.line} [{self.rule}] {self.func}: {self.msg} :: {self.expr}"


class Ctx:
    """Per-run context handed to a property's rules."""

    def __init__(self, prop, repo, tier, model):
        self.prop = prop
        self.repo = repo
        self.tier = tier
        self.model = model
        self.findings = []
        self.obligations = []      # dicts rule/site/verdict
        self.counts = {}           # rule -> instances examined
        self.notes = []

    def ob(self, rule, site, ok, detail=""):
        """Record one obligation (rule instance) and its verdict."""
        self.counts[rule] = self.counts.get(rule, 0) + 1
        self.obligations.append({"rule": rule, "site": site,
                                 "verdict": "holds" if ok else "VIOLATED",
                                 **({"detail": detail} if detail else {})})

    def fail(self, rule, func, node, msg, expr=None, file=None, line=None):
        f = Finding(rule, func, node, msg, expr=expr, file=file, line=line)
        # de-duplicate by key
        if not any(x.key == f.key for x in self.findings):
            self.findings.append(f)
        return f

    def check(self, rule, func, node, ok, msg, expr=None, site=None):
        """Obligation + finding in one call."""
        if site is None:
            fq = func.qual if isinstance(func, Func) else str(func)
            site = f"{fq}: {norm(expr if expr is not None else node)[:120]}"
        self.ob(rule, site, ok, "" if ok else msg)
        if not ok:
            self.fail(rule, func, node, msg, expr=expr)
        return ok

    def floor(self, rule, minimum):
        got = self.counts.get(rule, 0)
        if got < minimum:
            raise AnalysisError(self.prop, rule,
                                f"examined {got} instances, below the floor {minimum} (60% of the count confirmed by hand)")

    def broken(self, anchor, why):
        raise AnalysisError(self.prop, anchor, why)

    def note(self, text):
        self.notes.append(text)


# ----------------------------------------------------------------------------------------
# known findings


def load_known():
    p = os.path.join(VERIF, "known_findings.json")
    if not os.path.exists(p):
        return []
    with open(p) as f:
        return json.load(f)["findings"]


# ----------------------------------------------------------------------------------------
# runner


def run_property(prop, tier, repo, mod, seed=0, write_evidence=True, quiet=False):
    """Run one property module.  Returns (exit_code, findings, ctx)."""
    t0 = time.time()
    out = []

    def say(s):
        out.append(s)
        if not quiet:
            print(s, flush=True)

    try:
        model = Model(repo)
        ctx = Ctx(prop, repo, tier, model)
        mod.run(ctx)
        _known = {k["key"] for k in load_known() if k["property"] == prop and k.get("status") == "known"}
        _unlisted = [f for f in ctx.findings if f.key not in _known]
        for rule, minimum in getattr(mod, "FLOORS", {}).items():
            # a floor guards against a rule passing vacuously.  When the run reports an unlisted violation
            # anyway, lower instance counts are a consequence of the violating code, not a silent pass.
            if _unlisted:
                continue
            if any(f.rule == rule or f.rule.startswith(rule + ".") for f in ctx.findings):
                continue
            # FLOORS records the count confirmed by hand on the pinned tree; what is enforced is 60% of it, so
            # that a refactoring which merges instances (a loop over a table instead of a chain) is not refused.
            ctx.floor(rule, max(1, (minimum * 3) // 5))
    except AnalysisError as e:
        say(f"ANALYSIS-ERROR {e}")
        return 2, [], None
    except Exception:
        say(f"ANALYSIS-ERROR property={prop} anchor=internal traceback follows")
        say(traceback.format_exc())
        return 2, [], None

    known = [k for k in load_known() if k["property"] == prop and k.get("status") == "known"]
    known_keys = {k["key"]: k for k in known}
    new, listed = [], []
    for f in ctx.findings:
        (listed if f.key in known_keys else new).append(f)
    for f in listed:
        k = known_keys[f.key]
        say(f"KNOWN-FINDING: property={prop} {f.rule} {f.file}:{f.func} :: {f.expr} -- {k.get('what', f.msg)}")
    stale = [k for k in known if k["key"] not in {f.key for f in ctx.findings}]
    for k in stale:
        say(f"NOTE: listed known finding no longer reported (repaired or code moved): {k['key']}")

    wall = time.time() - t0
    total = len(ctx.obligations)
    discharged = sum(1 for o in ctx.obligations if o["verdict"] == "holds")
    sites = {o["site"] for o in ctx.obligations}
    ev = {
        "property_id": prop,
        "tier": tier,
        "seed": seed,
        "level": "other",
        "coverage": {
            "explanation": getattr(mod, "EXPLANATION", "").strip(),
            "rule": "each obligation is one (rule, code site) instance enumerated from the AST of "
                    "/repo's working tree; a site is non-trivial when the rule had to inspect code there; "
                    "distinct = distinct (rule, site) pairs",
            "obligations": total,
            "discharged": discharged,
            "evaluations": total,
            "distinct_nontrivial": len({(o["rule"], o["site"]) for o in ctx.obligations}),
            "distinct_sites": len(sites),
            "per_rule": dict(sorted(ctx.counts.items())),
            "floors": getattr(mod, "FLOORS", {}),
            "samples": ctx.obligations[:: max(1, total // 25)][:40],
            "exhaustive": True,
            "known_findings": [f.to_json() for f in listed],
            "new_findings": [f.to_json() for f in new],
            "files": model.files_digest(),
            "notes": ctx.notes,
            "checker_cmd": f"/venv/bin/python check {prop} --tier {tier}",
            "trusted_base": ["CPython ast module", "cklstat analyzers", "documented CPython semantics"],
        },
        "assumptions": list(getattr(mod, "ASSUMPTIONS", [])),
        "wall_s": round(wall, 3),
        "violations": len(new),
    }
    if write_evidence:
        os.makedirs(os.path.join(VERIF, "evidence"), exist_ok=True)
        with open(os.path.join(VERIF, "evidence", f"{prop}.json"), "w") as f:
            json.dump(ev, f, indent=1, sort_keys=False)
            f.write("\n")
    say(f"{prop}: {total} obligations over {len(sites)} sites, {discharged} hold, "
        f"{len(listed)} known finding(s), {len(new)} new violation(s) [{wall:.2f}s]")
    if new:
        replay = os.path.join(VERIF, "evidence", f"{prop}.violations.json")
        if write_evidence:
            with open(replay, "w") as f:
                json.dump([x.to_json() for x in new], f, indent=1)
                f.write("\n")
        for x in new:
            say(f"  {x}")
        say(f"VIOLATION property={prop} replay={replay}")
        return 1, new, ctx
    else:
        replay = os.path.join(VERIF, "evidence", f"{prop}.violations.json")
        if write_evidence and os.path.exists(replay):
            os.remove(replay)
    return 0, [], ctx
