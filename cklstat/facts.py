"""Must-hold branch facts over the CFG (a small path-insensitive but flow-sensitive dominance analysis).

A fact is (normalised test text, polarity).  Taking the true edge of `A and B` establishes A and B;
the false edge of `A or B` refutes A and B; `not X` flips.  A fact is killed when a statement may change
something it mentions (caller-supplied `kills(stmt_ast, fact_text)` predicate).  At joins the facts are
intersected, so a fact at a node holds on every path reaching it.
"""
import ast

from .core import norm


def split_test(test, polarity):
    """Facts established by `test` evaluating to `polarity`."""
    if isinstance(test, ast.UnaryOp) and isinstance(test.op, ast.Not):
        return split_test(test.operand, not polarity)
    if isinstance(test, ast.BoolOp):
        if isinstance(test.op, ast.And) and polarity:
            out = set()
            for v in test.values:
                out |= split_test(v, True)
            return out
        if isinstance(test.op, ast.Or) and not polarity:
            out = set()
            for v in test.values:
                out |= split_test(v, False)
            return out
        return {(norm(test), polarity)}
    return {(norm(test), polarity)}


def default_kills(stmt, fact_text):
    """A statement kills a fact if it assigns a name / attribute path that the fact text mentions."""
    targets = []
    for n in ast.walk(stmt) if stmt is not None else []:
        if isinstance(n, (ast.Assign,)):
            targets.extend(n.targets)
        elif isinstance(n, (ast.AugAssign, ast.AnnAssign)):
            targets.append(n.target)
        elif isinstance(n, ast.For):
            targets.append(n.target)
        elif isinstance(n, ast.NamedExpr):
            targets.append(n.target)
    for t in targets:
        for x in ast.walk(t):
            if isinstance(x, (ast.Name, ast.Attribute)):
                txt = norm(x)
                if _mentions(fact_text, txt):
                    return True
    return False


def _mentions(text, name):
    import re
    # names inside string literals do not count
    bare = re.sub(r"'(?:[^'\\]|\\.)*'|\"(?:[^\"\\]|\\.)*\"", "''", text)
    return re.search(r"(?<![\w.])" + re.escape(name) + r"(?![\w])", bare) is not None


def must_facts(cfg, kills=default_kills, initial=frozenset()):
    """-> {node.id: frozenset(facts holding on entry to node)}"""

    def transfer(node, label, state):
        s = set(state)
        stmt = node.ast if node.kind in ("stmt", "return", "with") else None
        if node.kind == "for" and label == "iter":
            stmt = ast.Assign(targets=[node.ast.target], value=ast.Constant(value=None))
        if node.kind == "for":
            # evaluating the iterable may have side effects as well
            it = node.ast.iter
            s = {f for f in s if not kills(ast.Expr(value=it), f[0])}
        if stmt is not None:
            s = {f for f in s if not kills(stmt, f[0])}
        if node.kind == "test":
            # the test expression itself may call things with side effects
            s = {f for f in s if not kills(ast.Expr(value=node.ast), f[0])}
            if label in ("true", "false"):
                s |= split_test(node.ast, label == "true")
        if label == "exc":
            pass
        return frozenset(s)

    def join(a, b):
        return a & b

    return cfg.dataflow(frozenset(initial), transfer, join)


def nodes_containing(cfg, pred):
    """CFG nodes whose own AST (statement or test expression, not nested blocks) contains a node satisfying pred."""
    out = []
    for n in cfg.nodes:
        a = n.ast
        if a is None:
            continue
        if n.kind == "for":
            a = n.ast.iter
        for x in ast.walk(a):
            if pred(x):
                out.append((n, x))
    return out


def short_circuit_facts(root, target):
    """Facts that hold when `target` (a sub-expression of `root`) is evaluated, by short-circuit evaluation alone:
    the earlier operands of every enclosing `and` were true, those of every enclosing `or` false; inside the body /
    orelse of a conditional expression its test was true / false."""
    out = set()

    def rec(e):
        if e is target:
            return True
        if isinstance(e, ast.BoolOp):
            for j, v in enumerate(e.values):
                if rec(v):
                    for prev in e.values[:j]:
                        out.update(split_test(prev, isinstance(e.op, ast.And)))
                    return True
            return False
        if isinstance(e, ast.IfExp):
            if rec(e.test):
                return True
            if rec(e.body):
                out.update(split_test(e.test, True))
                return True
            if rec(e.orelse):
                out.update(split_test(e.test, False))
                return True
            return False
        for c in ast.iter_child_nodes(e):
            if rec(c):
                return True
        return False

    rec(root)
    return out
