"""E5: bounds domain for host-int variables, relative to the length of a named sequence.

A bound is None (unbounded), ("c", k) for the constant k, or ("len", S, k) for len(S) + k, where S is the
normalised text of a sequence expression.  len(S) >= 0 is the only fact known about lengths.  A variable maps to
(lo, hi).  The analysis is a forward dataflow over the CFG (E3) with branch refinement on comparisons, the usual
join (min of lower bounds / max of upper bounds, None when incomparable) and widening after a few visits.
"""
import ast

from .cfg import CFG
from .core import norm

INF = None


def le(a, b):
    """a <= b ?  True / False / None(unknown)"""
    if a is None or b is None:
        return None
    if a[0] == "c" and b[0] == "c":
        return a[1] <= b[1]
    if a[0] == "len" and b[0] == "len":
        if a[1] == b[1]:
            return a[2] <= b[2]
        return None
    if a[0] == "c" and b[0] == "len":
        return True if a[1] <= b[2] else None       # len >= 0  =>  len + k >= k >= c
    if a[0] == "len" and b[0] == "c":
        return False if b[1] < a[2] else None
    return None


def shift(b, k):
    if b is None:
        return None
    if b[0] == "c":
        return ("c", b[1] + k)
    return ("len", b[1], b[2] + k)


def tighter_hi(cur, new):
    if cur is None:
        return new
    if new is None:
        return cur
    r = le(new, cur)
    if r is True:
        return new
    if r is False:
        return cur
    r2 = le(cur, new)
    if r2 is True:
        return cur
    return new if new[0] == "len" else cur


def tighter_lo(cur, new):
    if cur is None:
        return new
    if new is None:
        return cur
    r = le(cur, new)
    if r is True:
        return new
    r2 = le(new, cur)
    if r2 is True:
        return cur
    return new if new[0] == "c" else cur


def join_hi(a, b):
    if a is None or b is None:
        return None
    if le(a, b) is True:
        return b
    if le(b, a) is True:
        return a
    return None


def join_lo(a, b):
    if a is None or b is None:
        return None
    if le(a, b) is True:
        return a
    if le(b, a) is True:
        return b
    return None


class Bounds:
    def __init__(self, func_node):
        self.g = CFG(func_node, implicit_exc=False)
        self.state = self._solve()

    # ---------------------------------------------------------------- expression -> (lo, hi)
    def ev(self, e, st):
        if isinstance(e, ast.Constant) and isinstance(e.value, int) and not isinstance(e.value, bool):
            return (("c", e.value), ("c", e.value))
        if isinstance(e, ast.UnaryOp) and isinstance(e.op, ast.USub) and isinstance(e.operand, ast.Constant) \
                and isinstance(e.operand.value, int):
            return (("c", -e.operand.value), ("c", -e.operand.value))
        if isinstance(e, ast.Name):
            return st.get(e.id, (None, None))
        if isinstance(e, ast.Call) and norm(e.func) == "len" and len(e.args) == 1:
            s = norm(e.args[0])
            return (("len", s, 0), ("len", s, 0))
        if isinstance(e, ast.BinOp) and isinstance(e.op, ast.Mod) and isinstance(e.right, ast.Constant) \
                and isinstance(e.right.value, int) and e.right.value > 0:
            return (("c", 0), ("c", e.right.value - 1))
        if isinstance(e, ast.BinOp) and isinstance(e.op, ast.Sub) and isinstance(e.left, ast.Constant) \
                and isinstance(e.left.value, int):
            r = self.ev(e.right, st)
            c = e.left.value
            lo = ("c", c - r[1][1]) if r[1] is not None and r[1][0] == "c" else None
            hi = ("c", c - r[0][1]) if r[0] is not None and r[0][0] == "c" else None
            return (lo, hi)
        if isinstance(e, ast.BinOp) and isinstance(e.op, (ast.Add, ast.Sub)):
            l, r = self.ev(e.left, st), self.ev(e.right, st)
            sign = 1 if isinstance(e.op, ast.Add) else -1
            # x +/- const
            if r[0] is not None and r[0] == r[1] and r[0][0] == "c":
                k = sign * r[0][1]
                return (shift(l[0], k), shift(l[1], k))
            if sign == 1 and l[0] is not None and l[0] == l[1] and l[0][0] == "c":
                return (shift(r[0], l[0][1]), shift(r[1], l[0][1]))
            # const-bounded + len(S)
            if sign == 1 and r[0] is not None and r[0] == r[1] and r[0][0] == "len":
                lo = ("len", r[0][1], r[0][2] + l[0][1]) if l[0] is not None and l[0][0] == "c" else None
                hi = ("len", r[0][1], r[0][2] + l[1][1]) if l[1] is not None and l[1][0] == "c" else None
                return (lo, hi)
            if sign == 1 and l[0] is not None and l[0] == l[1] and l[0][0] == "len":
                lo = ("len", l[0][1], l[0][2] + r[0][1]) if r[0] is not None and r[0][0] == "c" else None
                hi = ("len", l[0][1], l[0][2] + r[1][1]) if r[1] is not None and r[1][0] == "c" else None
                return (lo, hi)
            return (None, None)
        if isinstance(e, ast.Call) and norm(e.func) in ("min", "max") and len(e.args) == 2:
            a, b = self.ev(e.args[0], st), self.ev(e.args[1], st)
            if norm(e.func) == "min":
                return (join_lo(a[0], b[0]), tighter_hi(a[1], b[1]))
            return (tighter_lo(a[0], b[0]), join_hi(a[1], b[1]))
        return (None, None)

    # ---------------------------------------------------------------- refinement
    def refine(self, test, pol, st):
        if isinstance(test, ast.UnaryOp) and isinstance(test.op, ast.Not):
            return self.refine(test.operand, not pol, st)
        if isinstance(test, ast.BoolOp):
            conj = isinstance(test.op, ast.And)
            if conj == pol:
                for v in test.values:
                    st = self.refine(v, pol, st)
                return st
            # disjunction of outcomes: join
            outs = [self.refine(v, pol, dict(st)) for v in test.values]
            res = outs[0]
            for o in outs[1:]:
                res = join_state(res, o)
            return res
        if isinstance(test, ast.Compare) and len(test.ops) == 1:
            op, l, r = test.ops[0], test.left, test.comparators[0]
            st = dict(st)
            for var, other, flip in ((l, r, False), (r, l, True)):
                if not isinstance(var, ast.Name):
                    continue
                b = self.ev(other, st)
                lo, hi = st.get(var.id, (None, None))
                o = type(op)
                if flip:
                    o = {ast.Lt: ast.Gt, ast.Gt: ast.Lt, ast.LtE: ast.GtE, ast.GtE: ast.LtE}.get(o, o)
                if not pol:
                    o = {ast.Lt: ast.GtE, ast.GtE: ast.Lt, ast.Gt: ast.LtE, ast.LtE: ast.Gt, ast.Eq: ast.NotEq,
                         ast.NotEq: ast.Eq}.get(o, None)
                if o is ast.Lt:
                    hi = tighter_hi(hi, shift(b[1], -1))
                elif o is ast.LtE:
                    hi = tighter_hi(hi, b[1])
                elif o is ast.Gt:
                    lo = tighter_lo(lo, shift(b[0], 1))
                elif o is ast.GtE:
                    lo = tighter_lo(lo, b[0])
                elif o is ast.Eq:
                    lo = tighter_lo(lo, b[0])
                    hi = tighter_hi(hi, b[1])
                st[var.id] = (lo, hi)
            return st
        return st

    # ---------------------------------------------------------------- solver
    def _transfer(self, node, label, st):
        st = dict(st)
        a = node.ast
        if node.kind == "test":
            if label in ("true", "false"):
                return self.refine(a, label == "true", st)
            return st
        if node.kind == "for":
            if label == "iter" and isinstance(a.target, ast.Name):
                it = a.iter
                rng = (None, None)
                if isinstance(it, ast.Call) and norm(it.func) == "range":
                    args = it.args
                    if len(args) == 1:
                        rng = (("c", 0), shift(self.ev(args[0], st)[1], -1))
                    elif len(args) == 2:
                        rng = (self.ev(args[0], st)[0], shift(self.ev(args[1], st)[1], -1))
                    elif len(args) == 3 and norm(args[2]) == "-1":
                        rng = (shift(self.ev(args[1], st)[0], 1), self.ev(args[0], st)[1])
                st[a.target.id] = rng
            elif label == "iter":
                for n in ast.walk(a.target):
                    if isinstance(n, ast.Name):
                        st.pop(n.id, None)
            return st
        if isinstance(a, ast.Assign) and len(a.targets) == 1 and isinstance(a.targets[0], ast.Name):
            st[a.targets[0].id] = self.ev(a.value, st)
            return st
        if isinstance(a, ast.Assign):
            for t in a.targets:
                for n in ast.walk(t):
                    if isinstance(n, ast.Name) and isinstance(n.ctx, ast.Store):
                        st.pop(n.id, None)
            return st
        if isinstance(a, ast.AugAssign) and isinstance(a.target, ast.Name):
            fake = ast.BinOp(left=ast.Name(id=a.target.id, ctx=ast.Load()), op=a.op, right=a.value)
            st[a.target.id] = self.ev(fake, st)
            return st
        return st

    def _solve(self):
        g = self.g
        state = {g.entry.id: {}}
        byid = {n.id: n for n in g.nodes}
        work = [g.entry]
        visits = {}
        while work:
            n = work.pop()
            visits[n.id] = visits.get(n.id, 0) + 1
            s_in = state[n.id]
            for label, t in n.succ:
                out = self._transfer(n, label, s_in)
                if t.id in state:
                    merged = join_state(state[t.id], out)
                    if visits.get(t.id, 0) > 6:
                        merged = {k: v for k, v in merged.items() if state[t.id].get(k) == v}
                    if merged != state[t.id]:
                        state[t.id] = merged
                        work.append(byid[t.id])
                else:
                    state[t.id] = out
                    work.append(byid[t.id])
        return state

    def at(self, node):
        return self.state.get(node.id, {})


def join_state(a, b):
    out = {}
    for k in a.keys() & b.keys():
        out[k] = (join_lo(a[k][0], b[k][0]), join_hi(a[k][1], b[k][1]))
    return out


def show(b):
    if b is None:
        return "?"
    if b[0] == "c":
        return str(b[1])
    return f"len({b[1]}){b[2]:+d}" if b[2] else f"len({b[1]})"
