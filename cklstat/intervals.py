"""E5: bounds domain for host-int variables, relative to the length of a named sequence.

A bound is None (unbounded), ("c", k) for the constant k, ("len", S, k) for len(S) + k, where S is the
normalised text of a sequence expression, or ("sym", P, k) for P + k where P is a parameter of the analysed function
that is never assigned (an opaque integer, used for helper summaries).  len(S) >= 0 is the only fact known about
lengths; nothing is known about a sym.

Extensions used by the callers:
  assume     {key: (lo, hi)} initial bounds for names / tracked attribute paths (class invariants, parameter contracts)
  tracked    attribute paths treated as variables ("self.nextToken")
  preds      {call text: expression AST} zero-argument predicate methods that are a single `return <expr>`
  resets     callable(ast) -> keys whose bounds fall back to `assume` (calls that may write a tracked path)
  summaries  callable(call ast) -> Summary or None: bounds of a helper's return value in terms of its parameters
Bounds on compound expressions (`a + n - 1 < len(S)`) are remembered under the expression's text and dropped when a
constituent changes.  A variable maps to
(lo, hi).  The analysis is a forward dataflow over the CFG (E3) with branch refinement on comparisons, the usual
join (min of lower bounds / max of upper bounds, None when incomparable) and widening after a few visits.
"""
import ast

from .cfg import CFG
from .core import norm

INF = None


def le(a, b):
    """a <= b ?  True / False / None(unknown)"""
    if a is None or b is None:
        return None
    if a[0] == "c" and b[0] == "c":
        return a[1] <= b[1]
    if a[0] == "len" and b[0] == "len":
        if a[1] == b[1]:
            return a[2] <= b[2]
        return None
    if a[0] == "c" and b[0] == "len":
        return True if a[1] <= b[2] else None       # len >= 0  =>  len + k >= k >= c
    if a[0] == "len" and b[0] == "c":
        return False if b[1] < a[2] else None
    if a[0] == "sym" and b[0] == "sym" and a[1] == b[1]:
        return a[2] <= b[2]
    return None


def shift(b, k):
    if b is None:
        return None
    if b[0] == "c":
        return ("c", b[1] + k)
    return (b[0], b[1], b[2] + k)


def add_bound(a, b):
    """a + b for two bounds of the same side (both lower or both upper)"""
    if a is None or b is None:
        return None
    if a[0] == "c":
        return shift(b, a[1])
    if b[0] == "c":
        return shift(a, b[1])
    return None


def neg_const(b):
    return ("c", -b[1]) if b is not None and b[0] == "c" else None


def tighter_hi(cur, new):
    if cur is None:
        return new
    if new is None:
        return cur
    r = le(new, cur)
    if r is True:
        return new
    if r is False:
        return cur
    r2 = le(cur, new)
    if r2 is True:
        return cur
    return new if new[0] == "len" else cur


def tighter_lo(cur, new):
    if cur is None:
        return new
    if new is None:
        return cur
    r = le(cur, new)
    if r is True:
        return new
    r2 = le(new, cur)
    if r2 is True:
        return cur
    return new if new[0] == "c" else cur


def join_hi(a, b):
    if a is None or b is None:
        return None
    if le(a, b) is True:
        return b
    if le(b, a) is True:
        return a
    return None


def join_lo(a, b):
    if a is None or b is None:
        return None
    if le(a, b) is True:
        return a
    if le(b, a) is True:
        return b
    return None


class Summary:
    """Bounds of a helper function's return value, in terms of its own parameters (sym bounds)."""

    def __init__(self, params, lo, hi, elems=None):
        self.params, self.lo, self.hi = params, lo, hi
        self.elems = elems          # for helpers returning a tuple: [(lo, hi), ..] per position


def summarise(func_node, **kw):
    """Summary of func_node's returned value over all normal returns, or None."""
    b = Bounds(func_node, **kw)
    lo = hi = None
    first = True
    rets = [n for n in b.g.nodes if n.kind == "return" and n.ast.value is not None and n.id in b.state]
    if rets and all(isinstance(n.ast.value, ast.Tuple) for n in rets) and len({len(n.ast.value.elts) for n in rets}) == 1:
        elems = None
        for n in rets:
            cur = [b.ev(e, b.state[n.id]) for e in n.ast.value.elts]
            elems = cur if elems is None else [(join_lo(x[0], y[0]), join_hi(x[1], y[1])) for x, y in zip(elems, cur)]
        a = func_node.args
        return Summary([x.arg for x in a.posonlyargs + a.args], None, None, elems)
    for n in b.g.nodes:
        if n.kind != "return" or n.ast.value is None or n.id not in b.state:
            continue
        l, h = b.ev(n.ast.value, b.state[n.id])
        if first:
            lo, hi, first = l, h, False
        else:
            lo, hi = join_lo(lo, l), join_hi(hi, h)
    if first:
        return None
    a = func_node.args
    params = [x.arg for x in a.posonlyargs + a.args]
    return Summary(params, lo, hi)


class ContextSummary:
    """A helper analysed again for each call site, with the bounds of the actual arguments as what is known about
    its parameters (so `len(x) >= 0` at the call site is available inside the helper)."""

    def __init__(self, func_node, **kw):
        self.node = func_node
        self.kw = kw
        a = func_node.args
        self.params = [x.arg for x in a.posonlyargs + a.args]
        self.cache = {}

    def at(self, actuals):
        key = repr(sorted(actuals.items()))
        if key not in self.cache:
            self.cache[key] = None
            assume = dict(self.kw.get("assume") or {})
            assume.update(actuals)
            kw = dict(self.kw)
            kw["assume"] = assume
            self.cache[key] = summarise(self.node, **kw)
        return self.cache[key]


class Bounds:
    def __init__(self, func_node, assume=None, tracked=(), preds=None, resets=None, summaries=None):
        self.assume = dict(assume or {})
        self.tracked = set(tracked)
        self.preds = dict(preds or {})
        self.resets = resets
        self.summaries = summaries
        assigned = set()
        for n in ast.walk(func_node):
            if isinstance(n, ast.Name) and isinstance(n.ctx, (ast.Store, ast.Del)):
                assigned.add(n.id)
        a = func_node.args
        self.syms = {x.arg for x in a.posonlyargs + a.args + a.kwonlyargs} - assigned - {"self", "cls"}
        self.g = CFG(func_node, implicit_exc=False)
        self.state = self._solve()

    # ---------------------------------------------------------------- expression -> (lo, hi)
    def key(self, e):
        if isinstance(e, ast.Name):
            return e.id
        if isinstance(e, ast.Attribute):
            t = norm(e)
            return t if t in self.tracked else None
        return None

    def lookup(self, k, st):
        if k in st:
            return st[k]
        if k in self.assume:
            return self.assume[k]
        if k in self.syms:
            return (("sym", k, 0), ("sym", k, 0))
        return (None, None)

    def ev(self, e, st):
        r = self._ev(e, st)
        if not isinstance(e, (ast.Name, ast.Constant)):
            k = "expr:" + norm(e)
            if k in st:
                x = st[k]
                r = (tighter_lo(r[0], x[0]), tighter_hi(r[1], x[1]))
        return r

    def _ev(self, e, st):
        if isinstance(e, ast.Constant) and isinstance(e.value, int) and not isinstance(e.value, bool):
            return (("c", e.value), ("c", e.value))
        if isinstance(e, ast.UnaryOp) and isinstance(e.op, ast.USub) and isinstance(e.operand, ast.Constant) \
                and isinstance(e.operand.value, int):
            return (("c", -e.operand.value), ("c", -e.operand.value))
        k = self.key(e)
        if k is not None:
            return self.lookup(k, st)
        if isinstance(e, ast.Call) and norm(e.func) == "len" and len(e.args) == 1:
            s = norm(e.args[0])
            return (("len", s, 0), ("len", s, 0))
        if isinstance(e, ast.BinOp) and isinstance(e.op, ast.Mod) and isinstance(e.right, ast.Constant) \
                and isinstance(e.right.value, int) and e.right.value > 0:
            return (("c", 0), ("c", e.right.value - 1))
        if isinstance(e, ast.BinOp) and isinstance(e.op, ast.Add):
            l, r = self.ev(e.left, st), self.ev(e.right, st)
            return (add_bound(l[0], r[0]), add_bound(l[1], r[1]))
        if isinstance(e, ast.BinOp) and isinstance(e.op, ast.Sub):
            l, r = self.ev(e.left, st), self.ev(e.right, st)
            return (add_bound(l[0], neg_const(r[1])), add_bound(l[1], neg_const(r[0])))
        if isinstance(e, ast.Call) and norm(e.func) in ("min", "max") and len(e.args) == 2:
            a, b = self.ev(e.args[0], st), self.ev(e.args[1], st)
            if norm(e.func) == "min":
                return (join_lo(a[0], b[0]), tighter_hi(a[1], b[1]))
            return (tighter_lo(a[0], b[0]), join_hi(a[1], b[1]))
        if isinstance(e, ast.IfExp):
            a = self.ev(e.body, self.refine(e.test, True, st))
            b = self.ev(e.orelse, self.refine(e.test, False, st))
            return (join_lo(a[0], b[0]), join_hi(a[1], b[1]))
        if isinstance(e, ast.Call) and self.summaries is not None:
            sm = self.summaries(e)
            if sm is not None:
                return self._apply_summary(sm, e, st)
        return (None, None)

    def _apply_summary(self, sm, call, st, elem=None):
        if isinstance(sm, ContextSummary):
            params = sm.params[1:] if sm.params[:1] in (["self"], ["cls"]) else sm.params
            actuals = {}
            for p_, a_ in zip(params, call.args):
                actuals[p_] = self.ev(a_, st)
            for kw_ in call.keywords:
                if kw_.arg:
                    actuals[kw_.arg] = self.ev(kw_.value, st)
            # bounds relative to sequences of the caller stay meaningful: they are texts of caller expressions
            res = sm.at(actuals)
            if res is None:
                return (None, None)
            if elem is not None:
                return res.elems[elem] if res.elems is not None and elem < len(res.elems) else (None, None)
            return (None, None) if res.elems is not None else (res.lo, res.hi)
        actual = {}
        for p, a in zip(sm.params[1:] if sm.params[:1] == ["self"] else sm.params, call.args):
            actual[p] = a
        for kw in call.keywords:
            if kw.arg:
                actual[kw.arg] = kw.value

        def sub(b, side):
            if b is None or b[0] != "sym":
                return b
            a = actual.get(b[1])
            if a is None:
                return None
            return shift(self.ev(a, st)[side], b[2])

        if elem is not None:
            if sm.elems is None or elem >= len(sm.elems):
                return (None, None)
            return (sub(sm.elems[elem][0], 0), sub(sm.elems[elem][1], 1))
        if sm.elems is not None:
            return (None, None)
        return (sub(sm.lo, 0), sub(sm.hi, 1))

    # ---------------------------------------------------------------- refinement
    def refine(self, test, pol, st):
        if isinstance(test, ast.UnaryOp) and isinstance(test.op, ast.Not):
            return self.refine(test.operand, not pol, st)
        if isinstance(test, ast.Call) and norm(test) in self.preds:
            return self.refine(self.preds[norm(test)], pol, st)
        if isinstance(test, ast.BoolOp):
            conj = isinstance(test.op, ast.And)
            if conj == pol:
                for v in test.values:
                    st = self.refine(v, pol, st)
                return st
            # disjunction of outcomes: join
            outs = [self.refine(v, pol, dict(st)) for v in test.values]
            res = outs[0]
            for o in outs[1:]:
                res = join_state(res, o, self)
            return res
        if isinstance(test, ast.Compare) and len(test.ops) == 1:
            op, l, r = test.ops[0], test.left, test.comparators[0]
            st = dict(st)
            for var, other, flip in ((l, r, False), (r, l, True)):
                if isinstance(var, ast.Constant):
                    continue
                k = self.key(var)
                if k is None:
                    if not isinstance(var, (ast.BinOp,)):
                        continue
                    k = "expr:" + norm(var)
                    lo, hi = st.get(k, (None, None))
                else:
                    lo, hi = self.lookup(k, st)
                b = self.ev(other, st)
                o = type(op)
                if flip:
                    o = {ast.Lt: ast.Gt, ast.Gt: ast.Lt, ast.LtE: ast.GtE, ast.GtE: ast.LtE}.get(o, o)
                if not pol:
                    o = {ast.Lt: ast.GtE, ast.GtE: ast.Lt, ast.Gt: ast.LtE, ast.LtE: ast.Gt, ast.Eq: ast.NotEq,
                         ast.NotEq: ast.Eq}.get(o, None)
                if o is ast.Lt:
                    hi = tighter_hi(hi, shift(b[1], -1))
                elif o is ast.LtE:
                    hi = tighter_hi(hi, b[1])
                elif o is ast.Gt:
                    lo = tighter_lo(lo, shift(b[0], 1))
                elif o is ast.GtE:
                    lo = tighter_lo(lo, b[0])
                elif o is ast.Eq:
                    lo = tighter_lo(lo, b[0])
                    hi = tighter_hi(hi, b[1])
                elif o is ast.NotEq and b[0] is not None and b[0] == b[1]:
                    if lo == b[0]:
                        lo = shift(lo, 1)
                    if hi == b[0]:
                        hi = shift(hi, -1)
                st[k] = (lo, hi)
            return st
        return st

    # ---------------------------------------------------------------- solver
    def _kill(self, st, keys):
        """`keys` changed: compound-expression facts mentioning them are dropped."""
        if not keys:
            return
        for k in [k for k in st if k.startswith("expr:")]:
            if any(_mentions(k[5:], x) for x in keys):
                del st[k]

    def _apply_resets(self, a, st):
        if self.resets is None or a is None:
            return
        keys = self.resets(a)
        for k in keys:
            st.pop(k, None)
        self._kill(st, keys)

    def _transfer(self, node, label, st):
        st = dict(st)
        a = node.ast
        if node.kind == "test":
            self._apply_resets(a, st)
            if label in ("true", "false"):
                return self.refine(a, label == "true", st)
            return st
        if node.kind == "for":
            self._apply_resets(a.iter, st)
            if label == "iter":
                it = a.iter
                tgt = a.target
                names = [n.id for n in ast.walk(tgt) if isinstance(n, ast.Name)]
                for nm in names:
                    st[nm] = (None, None)
                self._kill(st, names)
                if isinstance(tgt, ast.Name) and isinstance(it, ast.Call) and norm(it.func) == "range":
                    args = it.args
                    rng = (None, None)
                    if len(args) == 1:
                        rng = (("c", 0), shift(self.ev(args[0], st)[1], -1))
                    elif len(args) == 2:
                        rng = (self.ev(args[0], st)[0], shift(self.ev(args[1], st)[1], -1))
                    elif len(args) == 3 and norm(args[2]) == "-1":
                        rng = (shift(self.ev(args[1], st)[0], 1), self.ev(args[0], st)[1])
                    st[tgt.id] = rng
                elif isinstance(tgt, ast.Tuple) and tgt.elts and isinstance(tgt.elts[0], ast.Name) \
                        and isinstance(it, ast.Call) and norm(it.func) == "enumerate" and len(it.args) == 1:
                    st[tgt.elts[0].id] = (("c", 0), ("len", norm(it.args[0]), -1))
            return st
        if node.kind not in ("stmt", "return", "with"):
            return st
        self._apply_resets(a, st)
        if isinstance(a, ast.Assign) and len(a.targets) == 1 and self.key(a.targets[0]) is not None:
            k = self.key(a.targets[0])
            v = self.ev(a.value, st)
            self._kill(st, [k])
            st[k] = v
            return st
        if isinstance(a, ast.Assign) and len(a.targets) == 1 and isinstance(a.targets[0], ast.Tuple) \
                and isinstance(a.value, ast.Call) and self.summaries is not None \
                and all(isinstance(x, ast.Name) for x in a.targets[0].elts):
            sm = self.summaries(a.value)
            n_el = len(a.targets[0].elts)
            if isinstance(sm, ContextSummary) or (sm is not None and sm.elems is not None and len(sm.elems) == n_el):
                vals = [self._apply_summary(sm, a.value, st, i) for i in range(n_el)]
                names = [x.id for x in a.targets[0].elts]
                self._kill(st, names)
                for nm, v in zip(names, vals):
                    st[nm] = v
                return st
        if isinstance(a, ast.Assign):
            names = []
            for t in a.targets:
                for n in ast.walk(t):
                    if isinstance(n, ast.Name) and isinstance(n.ctx, ast.Store):
                        names.append(n.id)
                    elif isinstance(n, ast.Attribute) and norm(n) in self.tracked:
                        names.append(norm(n))
            for nm in names:
                st[nm] = (None, None)
            self._kill(st, names)
            return st
        if isinstance(a, ast.AugAssign) and self.key(a.target) is not None:
            k = self.key(a.target)
            load = ast.Name(id=k, ctx=ast.Load()) if isinstance(a.target, ast.Name) else a.target
            fake = ast.BinOp(left=load, op=a.op, right=a.value)
            v = self._ev(fake, st)
            self._kill(st, [k])
            st[k] = v
            return st
        return st

    def _solve(self):
        g = self.g
        state = {g.entry.id: {}}
        byid = {n.id: n for n in g.nodes}
        work = [g.entry]
        visits = {}
        while work:
            n = work.pop()
            visits[n.id] = visits.get(n.id, 0) + 1
            s_in = state[n.id]
            for label, t in n.succ:
                out = self._transfer(n, label, s_in)
                if t.id in state:
                    merged = join_state(state[t.id], out, self)
                    if visits.get(t.id, 0) > 6 and (t.kind == "for" or (
                            t.kind == "test" and isinstance(getattr(t, "origin", None), ast.While))):
                        # widening, per bound: a bound that is still moving is given up, a stable one is kept
                        wid = {}
                        for k, v in merged.items():
                            old = state[t.id].get(k)
                            if old is None:
                                continue
                            wid[k] = (v[0] if old[0] == v[0] else None, v[1] if old[1] == v[1] else None)
                        merged = wid
                    if merged != state[t.id]:
                        state[t.id] = merged
                        work.append(byid[t.id])
                else:
                    state[t.id] = out
                    work.append(byid[t.id])
        return state

    def at(self, node):
        return self.state.get(node.id, {})


def _mentions(text, name):
    import re
    return re.search(r"(?<![\w.])" + re.escape(name) + r"(?![\w])", text) is not None


def join_state(a, b, bounds=None):
    out = {}
    keys = a.keys() & b.keys()
    if bounds is not None:
        # a key absent on one side still has its assumed / symbolic value there
        keys = {k for k in a.keys() | b.keys() if not k.startswith("expr:")} | keys
    for k in keys:
        x = a[k] if k in a else bounds.lookup(k, a)
        y = b[k] if k in b else bounds.lookup(k, b)
        out[k] = (join_lo(x[0], y[0]), join_hi(x[1], y[1]))
    return out


def show(b):
    if b is None:
        return "?"
    if b[0] == "c":
        return str(b[1])
    if b[0] == "sym":
        return f"{b[1]}{b[2]:+d}" if b[2] else b[1]
    return f"len({b[1]}){b[2]:+d}" if b[2] else f"len({b[1]})"
