"""E4: flow-sensitive abstract interpretation of value classes / kinds over the CFG (E3).

Abstract value (AV):  a set of type atoms, or TOP (None) when nothing is known.
  atoms  repo class names ("ValueInt", "NodeList", "Args", ...), host types ("str", "int", "float",
         "bool", "None", "list", "dict", "set", "tuple", "bytes", "datetime", "re.Pattern", "file", ...)
  elem   AV of the elements for list/set/tuple/dict-values/iterables (None = unknown)
  items  per-position AVs of a literal list/tuple
  flags  'prog'      program-controlled: every atom in the set is reachable by some program
         'rendered'  text produced by str()/repr()/format of a Value (quoted / escaped literal form)
         'fresh'     object constructed in this function (not an alias of a parameter)
  alias  names of parameters / access paths this object may be identical to

Reports built on it are positive-evidence only: TOP never produces a finding.

Environment keys are variable names and *access paths* (`args.get('x')`, `self.value`, `a.value`), because
the repository repeats `args.get("n")` instead of binding it.  Branch conditions refine the paths they
mention: `v.isString()`, `not v.isX()`, `isinstance(v, C)`, `v == NULL`, `v is None`, `args.isNull("n")`,
truthiness, conjunction / disjunction.
"""
import ast

from .cfg import CFG
from .core import norm

HOST = {"str", "int", "float", "bool", "None", "list", "dict", "set", "tuple", "bytes", "datetime",
        "re.Pattern", "re.Match", "file", "callable", "range", "iter", "dictview", "type", "module",
        "frozenset", "Decimal", "exception", "timedelta", "stat", "process"}

MAXDEPTH = 3


class AV:
    __slots__ = ("types", "elem", "items", "flags", "alias", "keyelem")

    def __init__(self, types=None, elem=None, items=None, flags=frozenset(), alias=frozenset(), keyelem=None):
        self.types = frozenset(types) if types is not None else None
        self.elem = elem
        self.items = tuple(items) if items is not None else None
        self.flags = frozenset(flags)
        self.alias = frozenset(alias)
        self.keyelem = keyelem

    def is_top(self):
        return self.types is None

    def key(self, depth=0):
        if depth > MAXDEPTH:
            return "…"
        return (self.types, self.elem.key(depth + 1) if self.elem is not None else None,
                tuple(i.key(depth + 1) for i in self.items) if self.items is not None else None,
                self.flags, self.alias, self.keyelem.key(depth + 1) if self.keyelem is not None else None)

    def __eq__(self, other):
        return isinstance(other, AV) and self.key() == other.key()

    def __hash__(self):
        return hash(self.key())

    def with_(self, **kw):
        d = {"types": self.types, "elem": self.elem, "items": self.items, "flags": self.flags,
             "alias": self.alias, "keyelem": self.keyelem}
        d.update(kw)
        return AV(**d)

    def has(self, flag):
        return flag in self.flags

    def __repr__(self):
        if self.types is None:
            return "TOP"
        t = ",".join(sorted(self.types))
        if len(t) > 70:
            t = t[:67] + "..."
        e = f"<{self.elem!r}>" if self.elem is not None else ""
        f = (" " + " ".join(sorted(self.flags))) if self.flags else ""
        a = (" alias=" + ",".join(sorted(self.alias))) if self.alias else ""
        return f"{{{t}}}{e}{f}{a}"


TOP = AV()


def T(*types, **kw):
    return AV(types=types, **kw)


STR, INT, FLOAT, BOOL, NONE = T("str"), T("int"), T("float"), T("bool"), T("None")


def join(a, b, depth=0):
    if a is None:
        return b
    if b is None:
        return a
    if a.types is None or b.types is None:
        return TOP
    elem = None
    if a.elem is not None and b.elem is not None and depth < MAXDEPTH:
        elem = join(a.elem, b.elem, depth + 1)
    keyelem = None
    if a.keyelem is not None and b.keyelem is not None and depth < MAXDEPTH:
        keyelem = join(a.keyelem, b.keyelem, depth + 1)
    items = None
    if a.items is not None and b.items is not None and len(a.items) == len(b.items) and depth < MAXDEPTH:
        items = [join(x, y, depth + 1) for x, y in zip(a.items, b.items)]
    flags = (a.flags | b.flags) - {"fresh"}
    if "fresh" in a.flags and "fresh" in b.flags:
        flags = flags | {"fresh"}
    return AV(a.types | b.types, elem, items, flags, a.alias | b.alias, keyelem)


def join_env(e1, e2):
    if e1 is None:
        return e2
    if e2 is None:
        return e1
    out = {}
    for k in e1.keys() & e2.keys():
        v = join(e1[k], e2[k])
        out[k] = v
    return out


def env_eq(e1, e2):
    if e1 is None or e2 is None:
        return e1 is e2
    if e1.keys() != e2.keys():
        return False
    return all(e1[k] == e2[k] for k in e1)


class Config:
    """Repository knowledge extracted from the model (class tables) plus the frozen idiom tables."""

    def __init__(self, model):
        self.model = model
        self.value_classes = [c.name for c in model.subclasses("Value")] if "Value" in model.classes else []
        self.func_classes = {c.name for c in model.subclasses("ValueFunc")} if "ValueFunc" in model.classes else set()
        # collapse the ~116 built-in function classes into ValueFunc (FuncLambda kept)
        self.data_values = sorted(c for c in self.value_classes
                                  if c not in self.func_classes and not c.startswith("ValueControl"))
        self.control_values = sorted(c for c in self.value_classes if c.startswith("ValueControl"))
        self.any_value = frozenset(self.data_values) | {"ValueFunc", "FuncLambda"}
        self.any_result = self.any_value | frozenset(self.control_values)
        # isX table from the class bodies: which predicate methods a class overrides to `return True`
        self.is_true = {}         # predicate -> set(class names)
        base = model.classes.get("Value")
        self.predicates = [m for m in (base.methods if base else {}) if m.startswith("is") and m != "isinstance"]
        for p in self.predicates:
            self.is_true[p] = set()
        for c in self.value_classes:
            cls = model.classes[c]
            for p in self.predicates:
                m = model.find_method(cls, p)
                if m is not None and m.cls.name != "Value":
                    r = m.node.body[-1]
                    if isinstance(r, ast.Return) and isinstance(r.value, ast.Constant) and r.value.value is True:
                        self.is_true[p].add(self.canon(c))
        # derived predicates defined in Value as disjunctions of other predicates
        if base:
            for p in self.predicates:
                m = base.methods[p]
                r = m.node.body[-1]
                if isinstance(r, ast.Return) and isinstance(r.value, ast.BoolOp) and isinstance(r.value.op, ast.Or):
                    s = set()
                    okform = True
                    for v in r.value.values:
                        if isinstance(v, ast.Call) and isinstance(v.func, ast.Attribute) and norm(v.func.value) == "self" \
                                and v.func.attr in self.is_true:
                            s |= self.is_true[v.func.attr]
                        else:
                            okform = False
                    if okform:
                        self.is_true[p] = s
        # asX table: which class a conversion yields (from the method name)
        self.as_map = {"asString": "ValueString", "asInt": "ValueInt", "asDecimal": "ValueDecimal",
                       "asBoolean": "ValueBoolean", "asPattern": "ValuePattern", "asDate": "ValueDate",
                       "asList": "ValueList", "asSet": "ValueSet", "asMap": "ValueMap", "asFunc": "ValueFunc+",
                       "asInput": "ValueInput", "asOutput": "ValueOutput", "asNull": "ValueNull",
                       "asNode": "ValueNode", "asObject": "ValueObject", "asBreak": "ValueControlBreak",
                       "asContinue": "ValueControlContinue", "asReturn": "ValueControlReturn"}
        self.getters = {"getString": "ValueString", "getBoolean": "ValueBoolean", "getInt": "ValueInt",
                        "getDecimal": "ValueDecimal", "getList": "ValueList", "getMap": "ValueMap",
                        "getInput": "ValueInput", "getOutput": "ValueOutput", "getFunc": "ValueFunc+",
                        "getDate": "ValueDate"}
        self.getters_multi = {"getNumerical": {"ValueInt", "ValueDecimal"}}
        self.getas = {"getAs" + k[2:]: v for k, v in self.as_map.items()}
        # payload types of `.value`
        self.payload = {
            "ValueString": T("str"), "ValueInt": T("int"), "ValueDecimal": T("float", "int"),
            "ValueBoolean": T("bool"), "ValueDate": T("datetime"), "ValuePattern": T("str"),
            "ValueList": AV({"list"}, elem=AV(self.any_value, flags={"prog"})),
            "ValueSet": AV({"set"}, elem=AV(self.any_value, flags={"prog"})),
            "ValueMap": AV({"dict"}, elem=AV(self.any_value, flags={"prog"}),
                           keyelem=AV(self.any_value, flags={"prog"})),
            "ValueObject": AV({"dict"}, elem=AV(self.any_value, flags={"prog"}), keyelem=T("str")),
            "ValueNull": T("None"), "ValueNode": T("node"),
            "ValueControlReturn": AV(self.any_value, flags={"prog"}),
        }

    def canon(self, cname):
        if cname in self.func_classes and cname != "FuncLambda":
            return "ValueFunc"
        return cname

    def is_value(self, t):
        return t in self.any_result or t == "ValueFunc" or t in self.func_classes

    def anyvalue(self, prog=True, control=False):
        return AV(self.any_result if control else self.any_value, flags={"prog"} if prog else ())


def expand(t):
    return {"ValueFunc", "FuncLambda"} if t == "ValueFunc+" else {t}


def path_of(e):
    """Stable access path text for an expression, or None."""
    if isinstance(e, ast.Name):
        return e.id
    if isinstance(e, ast.Attribute):
        b = path_of(e.value)
        return f"{b}.{e.attr}" if b else None
    if isinstance(e, ast.Call) and isinstance(e.func, ast.Attribute) and e.func.attr == "get" \
            and isinstance(e.func.value, ast.Name) and len(e.args) == 1 and isinstance(e.args[0], ast.Constant) \
            and isinstance(e.args[0].value, str) and not e.keywords:
        return f"{e.func.value.id}.get({e.args[0].value!r})"
    if isinstance(e, ast.Subscript) and isinstance(e.slice, ast.Constant):
        b = path_of(e.value)
        return f"{b}[{e.slice.value!r}]" if b else None
    return None


class Event:
    __slots__ = ("kind", "node", "data", "env")

    def __init__(self, kind, node, data, env=None):
        self.kind, self.node, self.data, self.env = kind, node, data, env


class Interp:
    """Abstract interpreter for one function."""

    def __init__(self, engine, func, param_types=None):
        self.engine = engine
        self.cfgobj = engine.cfg
        self.model = engine.model
        self.func = func
        self.param_types = param_types or {}
        self.events = []
        self.emit = False
        self.returns = []

    # ------------------------------------------------------------------ expressions
    def ev(self, e, env):
        if e is None:
            return TOP
        m = getattr(self, "ev_" + type(e).__name__, None)
        if m is None:
            for c in ast.iter_child_nodes(e):
                if isinstance(c, ast.expr):
                    self.ev(c, env)
            return TOP
        p = path_of(e)
        if p is not None and p in env and not isinstance(e, ast.Name):
            # refined access path; still evaluate sub-expressions for events
            self._walk_children(e, env)
            return env[p]
        return m(e, env)

    def _walk_children(self, e, env):
        for c in ast.iter_child_nodes(e):
            if isinstance(c, ast.expr):
                self.ev(c, env)

    def ev_Constant(self, e, env):
        v = e.value
        if v is None:
            return NONE
        return T(type(v).__name__)

    def ev_JoinedStr(self, e, env):
        rendered = False
        for c in e.values:
            if isinstance(c, ast.FormattedValue):
                v = self.ev(c.value, env)
                self.event("format", c, (v,), env)
                if v.types and any(self.cfgobj.is_value(t) for t in v.types):
                    rendered = True
        return AV({"str"}, flags={"rendered"} if rendered else ())

    def ev_Name(self, e, env):
        if e.id in env:
            return env[e.id]
        if e.id in ("TRUE", "FALSE"):
            return T("ValueBoolean")
        if e.id == "NULL":
            return T("ValueNull")
        if e.id in ("True", "False"):
            return BOOL
        return TOP

    def ev_Attribute(self, e, env):
        base = self.ev(e.value, env)
        self.event("attr", e, (base, e.attr), env)
        if base.types is None or "?" in base.types:
            return TOP
        if e.attr == "value":
            out = None
            for t in base.types:
                pl = self.cfgobj.payload.get(t)
                if pl is None:
                    if self.cfgobj.is_value(t):
                        return TOP
                    return TOP
                out = join(out, pl)
            if out is not None:
                al = frozenset(a + ".value" for a in base.alias)
                fl = set(out.flags)
                # provenance of the payload: which value kinds it may come from, and whether program-controlled
                for t in base.types:
                    fl.add("payload:" + t)
                if "prog" in base.flags:
                    fl.add("progpayload")
                if "fresh" in base.flags:
                    fl.add("fresh")
                    # a container built in this function: its elements are what was put in, not arbitrary
                    if out.elem is not None:
                        out = out.with_(elem=None, keyelem=None)
                else:
                    fl.discard("fresh")
                return out.with_(alias=al, flags=frozenset(fl))
            return TOP
        ft = self.engine.field_type(base, e.attr)
        return ft

    def ev_Subscript(self, e, env):
        b = self.ev(e.value, env)
        idx = e.slice
        if isinstance(idx, ast.Slice):
            for x in (idx.lower, idx.upper, idx.step):
                if x is not None:
                    self.ev(x, env)
            self.event("slice", e, (b,), env)
            if b.types and b.types <= {"str"}:
                return AV({"str"}, flags=b.flags & {"rendered"})
            if b.types and b.types <= {"list"}:
                return AV({"list"}, elem=b.elem, flags={"fresh"})
            return TOP
        i = self.ev(idx, env)
        self.event("subscript", e, (b, i), env)
        if b.types is None:
            return TOP
        if b.items is not None and isinstance(idx, ast.Constant) and isinstance(idx.value, int) \
                and -len(b.items) <= idx.value < len(b.items):
            return b.items[idx.value]
        if b.types <= {"str"}:
            return STR
        if b.types <= {"list", "tuple", "dict"} and b.elem is not None:
            return b.elem
        return TOP

    def ev_BinOp(self, e, env):
        l, r = self.ev(e.left, env), self.ev(e.right, env)
        self.event("binop", e, (l, r, type(e.op).__name__), env)
        def unk(v):
            return v.types is None or any(t.startswith(("PARAM:", "SELF", "?")) for t in v.types)

        if unk(l) or unk(r):
            if isinstance(e.op, ast.Div):
                return FLOAT
            # str + x / x + str either raises or yields a string; same for lists
            if isinstance(e.op, ast.Add):
                for a in (l, r):
                    if not unk(a) and a.types <= {"str"}:
                        return STR
                    if not unk(a) and a.types <= {"list"}:
                        return AV({"list"}, flags={"fresh"})
            return TOP
        num = {"int", "float", "bool"}
        if isinstance(e.op, ast.Div) and l.types <= num and r.types <= num:
            return FLOAT
        if isinstance(e.op, (ast.Add, ast.Sub, ast.Mult, ast.FloorDiv, ast.Mod, ast.Pow)):
            if l.types <= {"int", "bool"} and r.types <= {"int", "bool"}:
                if isinstance(e.op, ast.Pow):
                    return T("int", "float")
                return INT
            if l.types <= num and r.types <= num:
                res = set()
                if "float" in l.types or "float" in r.types:
                    res.add("float")
                if (l.types & {"int", "bool"}) and (r.types & {"int", "bool"}):
                    res.add("int")
                return AV(res or {"float"})
            if isinstance(e.op, ast.Add) and l.types <= {"str"} and r.types <= {"str"}:
                return AV({"str"}, flags=(l.flags | r.flags) & {"rendered"})
            if isinstance(e.op, ast.Add) and l.types <= {"list"} and r.types <= {"list"}:
                return AV({"list"}, elem=join(l.elem, r.elem) if l.elem and r.elem else None, flags={"fresh"})
            if isinstance(e.op, ast.Mult) and l.types <= {"str"}:
                return STR
            if isinstance(e.op, ast.Mod) and l.types <= {"str"}:
                return STR
        if isinstance(e.op, (ast.BitAnd, ast.BitOr, ast.BitXor, ast.LShift, ast.RShift)):
            if l.types <= {"int", "bool"} and r.types <= {"int", "bool"}:
                return INT
            if isinstance(e.op, ast.BitOr) and l.types <= {"set"} and r.types <= {"set"}:
                return AV({"set"}, elem=join(l.elem, r.elem) if l.elem and r.elem else None, flags={"fresh"})
        return TOP

    def ev_UnaryOp(self, e, env):
        v = self.ev(e.operand, env)
        if isinstance(e.op, ast.Not):
            self.event("truth", e.operand, (v,), env)
            return BOOL
        if isinstance(e.op, ast.Invert) and v.types and v.types <= {"int", "bool"}:
            return INT
        if v.types and v.types <= {"int", "float", "bool"}:
            return v.with_(flags=frozenset())
        return TOP

    def ev_BoolOp(self, e, env):
        out = None
        cur = dict(env)
        unknown = False
        for i, v in enumerate(e.values):
            val = self.ev(v, cur)
            if i + 1 < len(e.values):
                self.event("truth", v, (val,), cur)
            if val.types is None:
                unknown = True
            else:
                out = join(out, val)
            if i + 1 < len(e.values):
                cur = self.refine(v, isinstance(e.op, ast.And), cur)
                if cur is None:
                    break
        if out is None:
            return TOP
        if unknown:
            # partial knowledge: some operand is unknown ("?"), the others contribute their types
            return out.with_(types=out.types | {"?"}, flags=frozenset(), alias=frozenset())
        return out

    def ev_Compare(self, e, env):
        l = self.ev(e.left, env)
        rs = [self.ev(c, env) for c in e.comparators]
        self.event("compare", e, (l, rs, [type(o).__name__ for o in e.ops]), env)
        return BOOL

    def ev_IfExp(self, e, env):
        self.event("truth", e.test, (self.ev(e.test, env),), env)
        et = self.refine(e.test, True, dict(env))
        ef = self.refine(e.test, False, dict(env))
        a = self.ev(e.body, et if et is not None else env)
        b = self.ev(e.orelse, ef if ef is not None else env)
        if et is None:
            return b
        if ef is None:
            return a
        return join(a, b)

    def ev_List(self, e, env):
        items = [self.ev(x, env) for x in e.elts]
        elem = None
        for i in items:
            elem = join(elem, i)
        return AV({"list"}, elem=elem, items=items if len(items) <= 6 else None, flags={"fresh"})

    def ev_Tuple(self, e, env):
        items = [self.ev(x, env) for x in e.elts]
        elem = None
        for i in items:
            elem = join(elem, i)
        return AV({"tuple"}, elem=elem, items=items if len(items) <= 6 else None, flags={"fresh"})

    def ev_Set(self, e, env):
        elem = None
        for x in e.elts:
            elem = join(elem, self.ev(x, env))
        return AV({"set"}, elem=elem, flags={"fresh"})

    def ev_Dict(self, e, env):
        k = v = None
        for a, b in zip(e.keys, e.values):
            if a is not None:
                k = join(k, self.ev(a, env))
            v = join(v, self.ev(b, env))
        return AV({"dict"}, elem=v, keyelem=k, flags={"fresh"})

    def _comp(self, e, env, elts):
        cur = dict(env)
        for g in e.generators:
            it = self.ev(g.iter, cur)
            self.event("iter", g.iter, (it, "comprehension"), cur)
            self.bind(g.target, self.elem_of(it), cur)
            for c in g.ifs:
                self.ev(c, cur)
                r = self.refine(c, True, cur)
                cur = r if r is not None else cur
        return [self.ev(x, cur) for x in elts]

    def ev_ListComp(self, e, env):
        (v,) = self._comp(e, env, [e.elt])
        return AV({"list"}, elem=v, flags={"fresh"})

    def ev_SetComp(self, e, env):
        (v,) = self._comp(e, env, [e.elt])
        return AV({"set"}, elem=v, flags={"fresh"})

    def ev_GeneratorExp(self, e, env):
        (v,) = self._comp(e, env, [e.elt])
        return AV({"iter"}, elem=v, flags={"fresh"})

    def ev_DictComp(self, e, env):
        k, v = self._comp(e, env, [e.key, e.value])
        return AV({"dict"}, elem=v, keyelem=k, flags={"fresh"})

    def ev_Lambda(self, e, env):
        return T("callable")

    def ev_Starred(self, e, env):
        v = self.ev(e.value, env)
        self.event("iter", e.value, (v, "star"), env)
        return TOP

    def elem_of(self, it):
        if it.types is None:
            return TOP
        if it.types <= {"str"}:
            return STR
        if it.types <= {"range"}:
            return INT
        if it.types <= {"dict"}:
            return it.keyelem if it.keyelem is not None else TOP
        if it.elem is not None and it.types <= {"list", "set", "tuple", "iter", "dictview", "frozenset"}:
            return it.elem
        return TOP

    # ------------------------------------------------------------------ calls
    def ev_Call(self, e, env):
        args = [self.ev(a, env) for a in e.args]
        kwargs = {k.arg: self.ev(k.value, env) for k in e.keywords}
        f = e.func
        res = self.engine.call(self, e, f, args, kwargs, env)
        return res

    # ------------------------------------------------------------------ statements / refinement
    def bind(self, target, value, env):
        if isinstance(target, ast.Name):
            env[target.id] = value
            self.kill_paths(target.id, env)
        elif isinstance(target, (ast.Tuple, ast.List)):
            for i, t in enumerate(target.elts):
                v = TOP
                if value.items is not None and i < len(value.items):
                    v = value.items[i]
                elif value.elem is not None:
                    v = value.elem
                self.bind(t, v, env)
        elif isinstance(target, ast.Attribute):
            p = path_of(target)
            b = self.ev(target.value, env)
            self.event("store_attr", target, (b, target.attr, value), env)
            if p:
                self.kill_paths(p, env)
                env[p] = value
        elif isinstance(target, ast.Subscript):
            b = self.ev(target.value, env)
            self.ev(target.slice, env) if not isinstance(target.slice, ast.Slice) else None
            self.event("store_subscript", target, (b, value), env)
        elif isinstance(target, ast.Starred):
            self.bind(target.value, TOP, env)

    @staticmethod
    def kill_paths(name, env):
        pre1, pre2, pre3 = name + ".", name + "[", name + "("
        for k in [k for k in env if k != name and (k.startswith(pre1) or k.startswith(pre2) or k.startswith(pre3))]:
            del env[k]

    def refine(self, test, polarity, env):
        """Environment after `test` evaluated to `polarity`; None if that edge is infeasible."""
        if isinstance(test, ast.UnaryOp) and isinstance(test.op, ast.Not):
            return self.refine(test.operand, not polarity, env)
        if isinstance(test, ast.BoolOp):
            conj = isinstance(test.op, ast.And)
            if conj == polarity:
                cur = env
                for v in test.values:
                    cur = self.refine(v, polarity, cur)
                    if cur is None:
                        return None
                return cur
            # disjunction of outcomes: join the refinements of each way to get here
            out = None
            cur = env
            for v in test.values:
                branch = self.refine(v, polarity, dict(cur))
                out = join_env(out, branch) if branch is not None else out
                nxt = self.refine(v, not polarity, dict(cur))
                if nxt is None:
                    break
                cur = nxt
            return out
        cfg = self.cfgobj
        # v.isX()
        if isinstance(test, ast.Call) and isinstance(test.func, ast.Attribute) and not test.args:
            name = test.func.attr
            recv = test.func.value
            p = path_of(recv)
            if name in cfg.is_true and p is not None:
                cur = self.ev_quiet(recv, env)
                if cur.types is not None:
                    yes = {t for t in cur.types if t in cfg.is_true[name]}
                    unknown = {t for t in cur.types if not cfg.is_value(t)}
                    new = (yes | unknown) if polarity else (cur.types - yes)
                    if not new:
                        return None
                    env = dict(env)
                    env[p] = cur.with_(types=new)
                    return env
                if polarity:
                    env = dict(env)
                    env[p] = AV(cfg.is_true[name])
                    return env
            if name in ("isTrue", "isFalse"):
                return env
        # args.isNull("n") / args.hasArg
        if isinstance(test, ast.Call) and isinstance(test.func, ast.Attribute) and test.func.attr == "isNull" \
                and len(test.args) == 1 and isinstance(test.args[0], ast.Constant) and isinstance(test.func.value, ast.Name):
            p = f"{test.func.value.id}.get({test.args[0].value!r})"
            cur = env.get(p)
            if cur is None:
                cur = cfg.anyvalue()
            if cur.types is not None:
                new = (cur.types & {"ValueNull"}) if polarity else (cur.types - {"ValueNull"})
                if not new:
                    return None
                env = dict(env)
                env[p] = cur.with_(types=new)
            return env
        # isinstance(v, C) / isinstance(v, (C, D))
        if isinstance(test, ast.Call) and isinstance(test.func, ast.Name) and test.func.id == "isinstance" \
                and len(test.args) == 2:
            p = path_of(test.args[0])
            names = []
            spec = test.args[1]
            for x in (spec.elts if isinstance(spec, ast.Tuple) else [spec]):
                names.append(norm(x).split(".")[-1])
            if p is not None:
                cur = self.ev_quiet(test.args[0], env)
                targets = set()
                for n in names:
                    targets |= self.engine.instances_of(n)
                if cur.types is not None:
                    new = (cur.types & targets) if polarity else (cur.types - targets)
                    if not new:
                        return None
                    env = dict(env)
                    env[p] = cur.with_(types=new)
                elif polarity and targets:
                    env = dict(env)
                    env[p] = AV(targets)
            return env
        # comparisons with NULL / None
        if isinstance(test, ast.Compare) and len(test.ops) == 1:
            op, l, r = test.ops[0], test.left, test.comparators[0]
            for a, b in ((l, r), (r, l)):
                p = path_of(a)
                if p is None:
                    continue
                const = None
                if isinstance(b, ast.Name) and b.id == "NULL":
                    const = "ValueNull"
                elif isinstance(b, ast.Constant) and b.value is None:
                    const = "None"
                if const is None:
                    continue
                eq = isinstance(op, (ast.Eq, ast.Is))
                ne = isinstance(op, (ast.NotEq, ast.IsNot))
                if not (eq or ne):
                    continue
                is_it = polarity if eq else (not polarity)
                cur = self.ev_quiet(a, env)
                if cur.types is None:
                    if is_it:
                        env = dict(env)
                        env[p] = T(const)
                    return env
                new = (cur.types & {const}) if is_it else (cur.types - {const})
                if not new:
                    return None
                env = dict(env)
                env[p] = cur.with_(types=new)
                return env
            return env
        # truthiness of a path: removes None on the true edge
        p = path_of(test)
        if p is not None:
            cur = self.ev_quiet(test, env)
            if cur.types is not None:
                if polarity:
                    new = cur.types - {"None"}
                    if not new:
                        return None
                    env = dict(env)
                    env[p] = cur.with_(types=new)
                else:
                    # false: None, or a falsy host value; repo classes are always truthy
                    falsy = {t for t in cur.types if t in HOST}
                    if not falsy:
                        return None
                    env = dict(env)
                    env[p] = cur.with_(types=falsy)
            return env
        return env

    def ev_quiet(self, e, env):
        saved = self.emit
        self.emit = False
        try:
            v = self.ev(e, env)
            if v.types is not None and any(t.startswith(("PARAM:", "SELF")) for t in v.types):
                return TOP.with_(alias=v.alias)
            return v
        finally:
            self.emit = saved

    def event(self, kind, node, data, env=None):
        if self.emit:
            self.events.append(Event(kind, node, data, env))

    # ------------------------------------------------------------------ driver
    def initial_env(self):
        env = {}
        f = self.func
        a = f.node.args
        names = [x.arg for x in a.posonlyargs + a.args]
        for i, n in enumerate(names):
            if n in self.param_types:
                env[n] = self.param_types[n]
            elif i == 0 and n == "self" and f.cls is not None:
                env[n] = AV(self.engine.self_types(f.cls), alias={"self"})
            else:
                t = self.engine.conventional_param(f, n)
                if t is not None:
                    env[n] = t.with_(alias=frozenset({n}))
                else:
                    env[n] = AV({f"PARAM:{i}"}, alias=frozenset({n}))
        return env

    def transfer(self, node, label, env):
        env = dict(env)
        a = node.ast
        k = node.kind
        if k in ("entry", "exit", "raise", "dispatch", "def"):
            return env
        if k == "handler":
            h = node.origin
            if h.name:
                env[h.name] = T("exception")
            return env
        if k == "test":
            self.event("truth", a, (self.ev(a, env),), env)
            if label in ("true", "false"):
                return self.refine(a, label == "true", env)
            return env
        if k == "for":
            it = self.ev(a.iter, env)
            self.event("iter", a.iter, (it, "for"), env)
            if label == "iter":
                self.bind(a.target, self.elem_of(it), env)
            return env
        if k == "with":
            v = self.ev(a, env)
            item = node.origin.items[0]
            if item.optional_vars is not None:
                self.bind(item.optional_vars, v if v.types else T("file"), env)
            return env
        if k == "return":
            if a.value is not None:
                v = self.ev(a.value, env)
                if label != "exc":
                    self.returns.append(v)
                self.event("return", a, (v,), env)
            else:
                if label != "exc":
                    self.returns.append(NONE)
            return env
        # stmt
        if isinstance(a, ast.Assign):
            v = self.ev(a.value, env)
            if label == "exc":
                return env
            p = path_of(a.value)
            for t in a.targets:
                self.bind(t, v, env)
            return env
        if isinstance(a, ast.AugAssign):
            cur = self.ev(a.target, env) if not isinstance(a.target, ast.Subscript) else TOP
            fake = ast.BinOp(left=a.target, op=a.op, right=a.value)
            ast.copy_location(fake, a)
            tgt_load = ast.parse(norm(a.target), mode="eval").body if not isinstance(a.target, ast.Subscript) else None
            if tgt_load is not None:
                fake.left = tgt_load
                v = self.ev(fake, env)
            else:
                self.ev(a.value, env)
                v = TOP
            if label != "exc":
                self.bind(a.target, v, env)
            return env
        if isinstance(a, ast.AnnAssign):
            v = self.ev(a.value, env) if a.value else TOP
            self.bind(a.target, v, env)
            return env
        if isinstance(a, ast.Expr):
            self.ev(a.value, env)
            return env
        if isinstance(a, ast.Raise):
            if a.exc is not None:
                v = self.ev(a.exc, env)
                self.event("raise", a, (v,), env)
            return env
        if isinstance(a, ast.Delete):
            for t in a.targets:
                if isinstance(t, ast.Subscript):
                    b = self.ev(t.value, env)
                    self.event("del_subscript", t, (b,), env)
                elif isinstance(t, ast.Name):
                    env.pop(t.id, None)
            return env
        if isinstance(a, (ast.Import, ast.ImportFrom, ast.Global, ast.Nonlocal, ast.Pass, ast.Break, ast.Continue)):
            return env
        if isinstance(a, ast.expr):
            self.ev(a, env)
        return env

    def run(self):
        g = CFG(self.func.node, implicit_exc=True)
        self.graph = g
        state = {g.entry.id: self.initial_env()}
        byid = {n.id: n for n in g.nodes}
        work = [g.entry]
        count = {}
        while work:
            n = work.pop()
            count[n.id] = count.get(n.id, 0) + 1
            if count[n.id] > 60:
                continue
            s_in = state[n.id]
            for label, t in n.succ:
                self.emit = False
                self.returns = []
                out = self.transfer(n, label, s_in)
                if out is None:
                    continue
                if t.id in state:
                    merged = join_env(state[t.id], out)
                    if not env_eq(merged, state[t.id]):
                        state[t.id] = merged
                        work.append(byid[t.id])
                else:
                    state[t.id] = out
                    work.append(byid[t.id])
        # final pass: emit events with the fixpoint states
        self.events = []
        self.returns = []
        self.state = state
        for n in g.nodes:
            if n.id not in state:
                continue
            self.emit = True
            labels = [l for l, _ in n.succ] or [None]
            # evaluate once (events do not depend on the edge taken)
            first = True
            for label in labels:
                self.emit = first
                saved = list(self.returns)
                self.transfer(n, label, state[n.id])
                if not first:
                    self.returns = saved
                first = False
        self.emit = False
        return self


# ======================================================================================================
import datetime as _dt
HOST_PYTYPES = {"str": str, "list": list, "dict": dict, "set": set, "tuple": tuple, "datetime": _dt.datetime}
STR_METHODS_STR = {"lower", "upper", "strip", "lstrip", "rstrip", "replace", "join", "format", "title",
                   "capitalize", "zfill", "ljust", "rjust", "center", "swapcase", "expandtabs", "casefold"}
STR_METHODS_INT = {"find", "rfind", "index", "rindex", "count"}
STR_METHODS_BOOL = {"startswith", "endswith", "isdigit", "isalpha", "isalnum", "isspace", "isupper",
                    "islower", "isnumeric", "isdecimal", "isidentifier"}
MATH_INT = {"trunc", "floor", "ceil", "gcd", "factorial", "isqrt"}


class Engine:
    def __init__(self, model, cg=None):
        self.model = model
        self.cfg = Config(model)
        from .callgraph import CallGraph
        self.cg = cg or CallGraph(model)
        self._summaries = {}
        self._in_progress = set()
        self._interps = {}
        self._field_cache = {}
        self._instances = {}

    # -------------------------------------------------------------- class helpers
    def instances_of(self, cname):
        """Atoms that are instances of class `cname` (canonicalised)."""
        if cname in self._instances:
            return self._instances[cname]
        host_alias = {"str": {"str"}, "int": {"int", "bool"}, "float": {"float"}, "bool": {"bool"},
                      "list": {"list"}, "dict": {"dict"}, "set": {"set"}, "tuple": {"tuple"},
                      "datetime": {"datetime"}}
        if cname in host_alias:
            r = host_alias[cname]
        elif cname == "Value":
            r = set(self.cfg.any_result)
        elif cname in self.model.classes:
            r = {self.cfg.canon(cname)}
            for s in self.model.subclasses(cname):
                r.add(self.cfg.canon(s.name))
            if cname == "ValueFunc":
                r.add("FuncLambda")
        else:
            r = set()
        self._instances[cname] = frozenset(r)
        return self._instances[cname]

    def self_types(self, cls):
        if cls.name == "Value":
            return self.cfg.any_result
        if cls.name in self.cfg.func_classes:
            return {cls.name}
        return {self.cfg.canon(cls.name)} | {self.cfg.canon(s.name) for s in self.model.subclasses(cls.name)}

    def conventional_param(self, f, name):
        """Types of parameters fixed by the repository's calling conventions."""
        if f.name == "execute" and f.cls is not None and (f.cls.name in self.cfg.func_classes or f.cls.name == "ValueFunc"):
            return {"args": T("Args"), "environment": T("Environment"), "pos": T("SourcePos")}.get(name)
        if f.name == "evaluate" and name == "environment":
            return T("Environment")
        if name == "lexer":
            return T("Lexer")
        if name == "fn" and f.module.name == "nodes" and f.cls is None:
            return T("ValueFunc", "FuncLambda")      # invoke() / getFuncallString(): callers test isFunc() first
        if name in ("token",) and f.module.name == "parser":
            return T("Token")
        if f.name in ("__eq__", "__lt__") and name == "other" and f.cls is not None \
                and f.cls.name in self.cfg.value_classes:
            return AV(self.cfg.any_result, flags={"prog"})
        if name == "environment" and f.module.name in ("nodes", "functions"):
            return T("Environment")
        return None

    def class_has_attr(self, cname, attr, strict=False):
        """strict: an attribute that only optional setters assign does not count (arbitrary instances)."""
        c = self.model.classes.get(cname)
        if c is None:
            return None
        key = (cname, attr, strict)
        if key in self._field_cache:
            return self._field_cache[key]
        found = False
        mro = self.model.mro(c)
        for idx, k in enumerate(mro):
            if attr in k.methods or attr in k.class_attrs:
                found = True
                break
            only_init = None
            for m in k.methods.values():
                for n in ast.walk(m.node):
                    if isinstance(n, ast.Attribute) and n.attr == attr and isinstance(n.ctx, ast.Store) \
                            and isinstance(n.value, ast.Name) and n.value.id == "self":
                        only_init = (m.name == "__init__") if only_init in (None, True) else False
            if only_init is None:
                continue
            if not only_init and not strict:
                found = True
                break
            if not only_init:
                # assigned only by optional setters (never by a constructor that is guaranteed to run):
                # does any constructor in the chain that DOES run set it?
                ctor_sets = False
                for kk in mro:
                    ki = kk.methods.get("__init__")
                    if ki is not None and any(isinstance(n, ast.Attribute) and n.attr == attr
                                              and isinstance(n.ctx, ast.Store) and norm(n.value) == "self"
                                              for n in ast.walk(ki.node)):
                        reach = True
                        for sub in mro[:mro.index(kk)]:
                            si = sub.methods.get("__init__")
                            if si is not None and "super().__init__" not in norm(si.node):
                                reach = False
                        ctor_sets = ctor_sets or reach
                if not ctor_sets:
                    continue
                found = True
                break
            if only_init and idx > 0:
                # set in an ancestor's constructor: only present if the constructors chain up to it
                chained = True
                for sub in mro[:idx]:
                    si = sub.methods.get("__init__")
                    if si is not None and "super().__init__" not in norm(si.node):
                        chained = False
                if not chained:
                    continue
            found = True
            break
        self._field_cache[key] = found
        return found

    def field_type(self, base, attr):
        """Type of `base.attr` (non-call) where statically evident."""
        if base.types is None:
            return TOP
        out = None
        for t in base.types:
            r = self._field_type1(t, attr)
            if r is None or r.types is None:
                return TOP
            out = join(out, r)
        return out if out is not None else TOP

    def _field_type1(self, t, attr):
        fixed = {
            ("Token", "value"): STR, ("Token", "type"): STR, ("Token", "pos"): T("SourcePos"),
            ("Lexer", "tokens"): AV({"list"}, elem=T("Token")), ("Lexer", "nextToken"): INT,
            ("Lexer", "script"): STR, ("Lexer", "name"): STR,
            ("SourcePos", "filename"): T("str", "None"), ("SourcePos", "line"): INT, ("SourcePos", "column"): INT,
            ("Args", "pos"): T("SourcePos", "None"), ("Args", "args"): AV({"dict"}, keyelem=STR,
                                                                          elem=AV(self.cfg.any_value, flags={"prog"})),
            ("Args", "argNames"): AV({"list"}, elem=STR),
            ("Environment", "map"): AV({"dict"}, keyelem=STR), ("Environment", "parent"): T("Environment", "None"),
            ("Environment", "modules"): AV({"dict"}, keyelem=STR, elem=T("Environment")),
            ("Environment", "modulestack"): AV({"list"}, elem=STR),
            ("ValuePattern", "pattern"): T("re.Pattern"),
            ("ValueFunc", "name"): STR, ("ValueFunc", "secure"): BOOL,
            ("ValueObject", "isModule"): BOOL,
            ("datetime", "year"): INT, ("datetime", "month"): INT, ("datetime", "day"): INT,
            ("datetime", "hour"): INT, ("datetime", "minute"): INT, ("datetime", "second"): INT,
            ("datetime", "microsecond"): INT,
            ("process", "returncode"): INT, ("process", "stdout"): STR,
            ("stat", "st_size"): INT, ("stat", "st_mtime"): FLOAT, ("stat", "st_ctime"): FLOAT,
            ("re.Pattern", "pattern"): STR,
        }
        if (t, attr) in fixed:
            return fixed[(t, attr)]
        if (t == "FuncLambda" or t in self.cfg.func_classes) and ("ValueFunc", attr) in fixed:
            return fixed[("ValueFunc", attr)]
        if attr == "info" and (self.cfg.is_value(t)):
            return STR
        if attr == "pos":
            return T("SourcePos", "None")
        if t in HOST_PYTYPES and callable(getattr(HOST_PYTYPES[t], attr, None)):
            return T("method")
        lit = self.literal_field(t, attr)
        if lit is not None:
            return lit
        cf = self.ctor_field(t, attr)
        if cf is not None:
            return cf
        return TOP

    def ctor_field(self, cname, attr):
        """Type of an instance field that the constructor copies from a parameter and nothing else assigns: the
        classes handed to the constructor at the call sites of the package ("?" stands for call sites that pass
        something that cannot be told; flag `ctorfield` marks the set as a lower bound)."""
        c = self.model.classes.get(cname)
        if c is None:
            return None
        key = ("ctor", cname, attr)
        if key in self._field_cache:
            return self._field_cache[key]
        self._field_cache[key] = None
        init = self.model.find_method(c, "__init__")
        if init is None:
            return None
        pidx = None
        for n in ast.walk(init.node):
            if isinstance(n, ast.Assign) and any(norm(t_) == f"self.{attr}" for t_ in n.targets) \
                    and isinstance(n.value, ast.Name) and n.value.id in init.params:
                pidx = init.params.index(n.value.id) - 1
        if pidx is None or pidx < 0:
            return None
        for k in self.model.mro(c):
            for m in k.methods.values():
                if m is init:
                    continue
                for n in ast.walk(m.node):
                    if isinstance(n, (ast.Assign, ast.AugAssign)) and any(
                            norm(t_) == f"self.{attr}" for t_ in (n.targets if isinstance(n, ast.Assign) else [n.target])):
                        return None
        types = set()
        for f in self.model.all_funcs(True):
            for n in ast.walk(f.node):
                if isinstance(n, ast.Call) and isinstance(n.func, ast.Name) and n.func.id == cname and len(n.args) > pidx:
                    a = n.args[pidx]
                    if isinstance(a, ast.Call) and isinstance(a.func, ast.Name) and a.func.id in self.model.classes:
                        types.add(a.func.id)
                    elif norm(a) in ("sys.stdin", "sys.stdout", "sys.stderr"):
                        types.add("TextIO")
                    else:
                        types.add("?")
        if not (types - {"?"}):
            return None
        res = AV(types, flags={"ctorfield"})
        self._field_cache[key] = res
        return res

    def literal_field(self, cname, attr):
        """Type of an instance field all of whose assignments are literals of one host type."""
        c = self.model.classes.get(cname)
        if c is None:
            return None
        key = ("lit", cname, attr)
        if key in self._field_cache:
            return self._field_cache[key]
        types = set()
        ok = True
        for k in self.model.mro(c):
            for m in k.methods.values():
                for n in ast.walk(m.node):
                    if isinstance(n, ast.Assign) and any(norm(t_) == f"self.{attr}" for t_ in n.targets):
                        v = n.value
                        if isinstance(v, ast.Constant) and v.value is not None:
                            types.add(type(v.value).__name__)
                        elif isinstance(v, ast.Subscript) and isinstance(v.slice, ast.Slice) and norm(v.value) == f"self.{attr}":
                            pass
                        else:
                            ok = False
                    if isinstance(n, ast.AugAssign) and norm(n.target) == f"self.{attr}":
                        if not (isinstance(n.op, ast.Add)):
                            ok = False
        res = AV(types) if ok and len(types) == 1 and types <= {"str"} else None
        self._field_cache[key] = res
        return res

    # -------------------------------------------------------------- summaries
    def interp(self, func):
        if func not in self._interps:
            self._interps[func] = Interp(self, func).run()
        return self._interps[func]

    def summary(self, func):
        """Join of the function's return values (TOP if unknown); falls-off-the-end adds None."""
        if func in self._summaries:
            return self._summaries[func]
        if func in self._in_progress:
            return None        # bottom for recursion
        self._in_progress.add(func)
        try:
            it = Interp(self, func).run()
            out = None
            for r in it.returns:
                if func.cls is not None and "self" in r.alias and len(r.alias) == 1 and r.types is not None:
                    r = AV({"SELF"})        # the method returns its receiver: substituted at the call site
                out = join(out, r)
            # does some path fall off the end?
            g = it.graph
            falls = False
            for lbl, pred in g.pred.get(g.exit.id, []):
                if pred.kind not in ("return",) and pred.id in it.state:
                    falls = True
            if falls:
                out = join(out, NONE)
            if out is None:
                out = TOP if any(isinstance(n, ast.Return) for n in ast.walk(func.node)) else NONE
            # raising-only functions
            self._summaries[func] = out
            self._interps.setdefault(func, it)
            return out
        finally:
            self._in_progress.discard(func)

    # -------------------------------------------------------------- calls
    def call(self, ip, e, f, args, kwargs, env):
        cfg = self.cfg
        ip.event("call", e, (f, args, kwargs), env)
        # ---- bare names
        if isinstance(f, ast.Name):
            n = f.id
            if n in env and env[n].types is not None and env[n].types <= {"callable"}:
                return TOP
            from .callgraph import local_names
            if n in ("len", "ord", "hash", "id"):
                return INT
            if n in ("str", "repr", "format", "chr", "input"):
                rendered = n in ("str", "repr", "format") and args and args[0].types is not None \
                    and any(cfg.is_value(t) or t in self.model.classes for t in args[0].types)
                # str(x) of a host string/number is not a rendering
                return AV({"str"}, flags={"rendered"} if rendered else ())
            if n == "int":
                return INT
            if n == "float":
                return FLOAT
            if n == "bool" or n == "isinstance" or n == "callable" or n == "hasattr" or n in ("any", "all"):
                return BOOL
            if n in ("list", "sorted", "reversed"):
                el = ip.elem_of(args[0]) if args else None
                if args:
                    ip.event("iter", e.args[0], (args[0], n), env)
                return AV({"list"}, elem=el if el is not None and el.types is not None else None, flags={"fresh"})
            if n in ("set", "frozenset"):
                el = ip.elem_of(args[0]) if args else None
                if args:
                    ip.event("iter", e.args[0], (args[0], n), env)
                return AV({"set"}, elem=el if el is not None and el.types is not None else None, flags={"fresh"})
            if n == "tuple":
                if args:
                    ip.event("iter", e.args[0], (args[0], n), env)
                return AV({"tuple"}, elem=ip.elem_of(args[0]) if args else None, flags={"fresh"})
            if n == "dict":
                return AV({"dict"}, flags={"fresh"})
            if n == "range":
                return AV({"range"}, elem=INT)
            if n in ("enumerate", "zip"):
                for a_node, a in zip(e.args, args):
                    ip.event("iter", a_node, (a, n), env)
                return AV({"iter"})
            if n in ("min", "max", "sum"):
                if args:
                    ip.event("iter", e.args[0], (args[0], n), env)
                if len(args) == 1 and args[0].elem is not None:
                    return args[0].elem.with_(flags=frozenset())
                out = None
                for a in args:
                    out = join(out, a)
                return out.with_(flags=frozenset()) if out is not None and out.types is not None else TOP
            if n == "abs":
                return args[0].with_(flags=frozenset()) if args and args[0].types is not None else TOP
            if n == "round":
                if len(args) + len(kwargs) >= 2:
                    return args[0].with_(flags=frozenset()) if args and args[0].types is not None else TOP
                return INT
            if n == "divmod":
                return AV({"tuple"})
            if n == "open":
                return T("file")
            if n == "print":
                return NONE
            if n == "type":
                return T("type")
            if n == "super":
                return TOP
            if n in ("iter", "next"):
                if args and n == "iter":
                    ip.event("iter", e.args[0], (args[0], n), env)
                return TOP
            kind, tgt = self.cg.resolve_module_name(ip.func.module, n) if n not in local_names(ip.func.node) \
                else ("local", None)
            if kind == "ctor":
                return self.construct(tgt, args, e)
            if kind == "func":
                return self.apply_summary(tgt, args)
            return TOP
        # ---- attribute calls
        if isinstance(f, ast.Attribute):
            name = f.attr
            from .callgraph import dotted
            d = dotted(f)
            # module functions
            if d and d[0] not in env:
                head = d[0]
                origin = ip.func.module.imports.get(head)
                inner = None
                if origin is None:
                    for n_ in ast.walk(ip.func.node):
                        if isinstance(n_, ast.Import):
                            for a_ in n_.names:
                                if (a_.asname or a_.name.split(".")[0]) == head:
                                    inner = a_.name
                    origin = inner
                if origin and not origin.startswith("ckl"):
                    return self.host_module_call(".".join([origin] + d[1:]), args, kwargs)
                if origin and origin.startswith("ckl"):
                    parts = origin.split(".") + d[1:]
                    if len(parts) >= 3:
                        m = self.model.modules.get(parts[1])
                        if m and parts[2] in m.classes and len(parts) == 3:
                            return self.construct(m.classes[parts[2]], args, e)
                        if m and parts[2] in m.funcs and len(parts) == 3:
                            return self.apply_summary(m.funcs[parts[2]], args)
                        if m and parts[2] in m.classes and len(parts) == 4:
                            mm = self.model.find_method(m.classes[parts[2]], parts[3])
                            if mm:
                                return self.apply_summary(mm, args, recv=T(parts[2]))
                    return TOP
                if head in self.model.classes and len(d) == 2:
                    mm = self.model.find_method(self.model.classes[head], d[1])
                    if mm:
                        return self.apply_summary(mm, args, recv=T(head))
            recv = ip.ev(f.value, env)
            ip.event("attr", f, (recv, name), env)
            ip.event("method", e, (recv, name, args), env)
            return self.method_call(ip, e, recv, name, args, kwargs, env)
        ip.ev(f, env)
        return TOP

    def construct(self, cls, args, node):
        c = self.cfg.canon(cls.name)
        payload_flags = {"fresh"}
        return AV({c}, flags=payload_flags)

    def apply_summary(self, func, args, recv=None):
        s = self.summary(func)
        if s is None:
            return AV(frozenset())      # bottom during recursion
        if s.types is None:
            return TOP
        return self.subst(s, func, args, recv)

    def subst(self, s, func, args, recv, depth=0):
        if s.types is None:
            return s
        if depth < MAXDEPTH and (s.elem is not None or s.items is not None):
            s = s.with_(elem=self.subst(s.elem, func, args, recv, depth + 1) if s.elem is not None else None,
                        items=[self.subst(i, func, args, recv, depth + 1) for i in s.items]
                        if s.items is not None else None)
        if not any(t.startswith(("PARAM:", "SELF")) for t in s.types):
            return s
        out = None
        rest = {t for t in s.types if not t.startswith(("PARAM:", "SELF"))}
        if rest:
            out = s.with_(types=rest)
        for t in s.types:
            if t == "SELF":
                out = join(out, recv if recv is not None else TOP)
            elif t.startswith("PARAM:"):
                i = int(t.split(":")[1])
                off = 1 if (func.cls is not None and func.params[:1] == ["self"]) else 0
                j = i - off
                out = join(out, args[j] if 0 <= j < len(args) else TOP)
        return out if out is not None else TOP

    def host_module_call(self, name, args, kwargs):
        if name.startswith("math."):
            fn = name.split(".")[1]
            return INT if fn in MATH_INT else FLOAT
        table = {
            "os.path.join": STR, "os.path.basename": STR, "os.path.dirname": STR, "os.path.expanduser": STR,
            "os.getcwd": STR, "os.environ.get": STR, "os.path.exists": BOOL, "os.path.isdir": BOOL,
            "os.path.isfile": BOOL, "os.listdir": AV({"list"}, elem=STR), "os.lstat": T("stat"),
            "os.stat": T("stat"), "re.compile": T("re.Pattern"), "re.escape": STR,
            "re.split": AV({"list"}, elem=STR), "re.match": T("re.Match", "None"),
            "re.search": T("re.Match", "None"), "re.sub": STR,
            "datetime.datetime.now": T("datetime"), "datetime.datetime.strptime": T("datetime"),
            "datetime.datetime.fromtimestamp": T("datetime"), "datetime.datetime": T("datetime"),
            "platform.system": STR, "platform.release": STR, "platform.machine": STR,
            "random.random": FLOAT, "subprocess.run": T("process"), "pkgutil.get_data": T("bytes"),
            "decimal.Decimal": T("Decimal"), "json.loads": TOP, "shutil.copy2": STR,
            "functools.total_ordering": TOP,
        }
        return table.get(name, TOP)

    def method_call(self, ip, e, recv, name, args, kwargs, env):
        cfg = self.cfg
        if name == "evaluate" and ip.func.module.name == "nodes":
            return cfg.anyvalue(control=True).with_(alias=frozenset({"operand:" + norm(e.func.value)}))
        if recv.types is None:
            # evaluators / natives invoked on unknown receivers still have known result families
            if name == "evaluate":
                return cfg.anyvalue(control=True)
            if name == "execute":
                return cfg.anyvalue()
            if name in cfg.as_map:
                return AV(expand(cfg.as_map[name]))
            if name in cfg.is_true:
                return BOOL
            if name == "split" and args:
                return AV({"list"}, elem=STR, flags={"fresh", "nonempty"})
            return TOP
        if "?" in recv.types:
            # partially known receiver: only receiver-independent results are kept
            if name in cfg.as_map:
                return AV(expand(cfg.as_map[name]))
            if name in cfg.is_true:
                return BOOL
            if name == "evaluate":
                return cfg.anyvalue(control=True)
            if name == "execute":
                return cfg.anyvalue()
            return TOP
        ts = recv.types
        # --- Args accessors
        if ts <= {"Args"}:
            lit = e.args[0].value if e.args and isinstance(e.args[0], ast.Constant) else None
            if name == "get":
                p = f"{norm(e.func.value)}.get({lit!r})" if lit is not None else None
                if p and p in env:
                    return env[p]
                return cfg.anyvalue().with_(alias=frozenset({p}) if p else frozenset())
            if name in cfg.getters:
                al = frozenset({f"{norm(e.func.value)}.get({lit!r})"}) if lit is not None else frozenset()
                return AV(expand(cfg.getters[name]), alias=al)
            if name in cfg.getters_multi:
                al = frozenset({f"{norm(e.func.value)}.get({lit!r})"}) if lit is not None else frozenset()
                return AV(cfg.getters_multi[name], alias=al)
            if name in cfg.getas:
                # may be the argument itself (when it already has the kind) or a converted copy
                al = frozenset({f"{norm(e.func.value)}.get({lit!r})"}) if lit is not None else frozenset()
                return AV(expand(cfg.getas[name]), alias=al)
            if name in ("hasArg", "isNull"):
                return BOOL
            if name in ("addArg", "addArgs"):
                return recv
            if name == "toStringAbbrev":
                return AV({"str"}, flags={"rendered"})
        # --- Value conversions / predicates
        if all(cfg.is_value(t) for t in ts):
            if name in cfg.is_true or name in ("isTrue", "isFalse"):
                return BOOL
            if name in cfg.as_map:
                target = expand(cfg.as_map[name])
                al = recv.alias if (target & ts) else frozenset()
                return AV(target, alias=al, flags=frozenset() if al else frozenset({"fresh"}))
            if name == "type":
                return STR
            if name == "withInfo":
                return recv
            if name == "evaluate":
                return cfg.anyvalue(control=True)
            if name == "execute":
                return cfg.anyvalue()
        if name == "evaluate":
            return cfg.anyvalue(control=True)
        if name == "execute" and (ts & {"ValueFunc", "FuncLambda"}):
            return cfg.anyvalue()
        # --- host receivers
        if ts <= {"str"}:
            if name in STR_METHODS_STR:
                return AV({"str"}, flags=recv.flags & {"rendered"})
            if name in STR_METHODS_INT:
                return INT
            if name in STR_METHODS_BOOL:
                return BOOL
            if name in ("split", "rsplit"):
                return AV({"list"}, elem=STR, flags={"fresh", "nonempty"} if args else {"fresh"})
            if name == "splitlines":
                return AV({"list"}, elem=STR, flags={"fresh"})
            if name == "encode":
                return T("bytes")
        if ts <= {"bytes"} and name == "decode":
            return STR
        if ts <= {"list"}:
            if name in ("append", "extend", "insert", "sort", "reverse", "clear", "remove"):
                return NONE
            if name == "pop":
                return recv.elem if recv.elem is not None else TOP
            if name == "copy":
                return recv.with_(flags=frozenset({"fresh"}), alias=frozenset())
            if name in ("index", "count"):
                return INT
        if ts <= {"dict"}:
            if name == "get":
                return join(recv.elem, NONE) if recv.elem is not None and len(args) < 2 else TOP
            prov = frozenset(f for f in recv.flags if f.startswith("payload:") or f == "progpayload")
            if name == "keys":
                return AV({"dictview"}, elem=recv.keyelem, flags=prov | {"dictkeys"})
            if name == "values":
                return AV({"dictview"}, elem=recv.elem, flags=prov | {"dictvalues"})
            if name == "items":
                el = AV({"tuple"}, items=[recv.keyelem or TOP, recv.elem or TOP])
                return AV({"dictview"}, elem=el, flags=prov | {"dictitems"})
            if name in ("update", "clear"):
                return NONE
            if name == "copy":
                return recv.with_(flags=frozenset({"fresh"}), alias=frozenset())
            if name == "pop":
                return recv.elem if recv.elem is not None else TOP
        if ts <= {"set"}:
            if name in ("add", "discard", "remove", "update", "clear"):
                return NONE
            if name in ("copy", "union", "intersection", "difference", "symmetric_difference"):
                return recv.with_(flags=frozenset({"fresh"}), alias=frozenset())
            if name == "pop":
                return recv.elem if recv.elem is not None else TOP
        if ts <= {"datetime"}:
            if name == "replace":
                return T("datetime")
            if name == "timestamp":
                return FLOAT
            if name in ("strftime", "isoformat"):
                return STR
        if ts <= {"re.Pattern"}:
            if name in ("match", "search", "fullmatch"):
                return T("re.Match", "None")
            if name == "split":
                return AV({"list"}, elem=STR)
            if name == "sub":
                return STR
        if ts <= {"file"}:
            if name in ("read", "readline"):
                return STR
            if name in ("write",):
                return INT
            if name in ("close", "flush"):
                return NONE
        # --- repo classes: method summaries
        out = None
        for t in ts:
            c = self.model.classes.get(t)
            if c is None:
                return TOP
            m = self.model.find_method(c, name)
            if m is None:
                return TOP
            r = self.apply_summary(m, args, recv=recv)
            if r.types is None:
                return TOP
            out = join(out, r)
        return out if out is not None else TOP
