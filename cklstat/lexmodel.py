"""E6: the scanner in Lexer.scan extracted into a table.

The scan loop has the shape

    while pos < len(self.script):
        ch = self.script[pos]; pos += 1; <line/column bookkeeping>
        if state == 0: ... elif state == 1: ... elif state == K: ...

Each `state == K` body is abstractly executed: every path through its if/elif/else (and try) tree
becomes a Leaf carrying the conjunction of branch conditions and a summary of its effects (what is
appended to the token buffer, which tokens are emitted with which type and position expression, the
next state, whether the current character is unread, whether a syntax error is raised).
Unrecognised statement or condition shapes raise LexShapeError (=> exit 2, never a guess).
"""
import ast

from .core import norm


class LexShapeError(Exception):
    pass


class Cond:
    """Atomic condition on the current character or the token buffer."""
    __slots__ = ("kind", "data")

    def __init__(self, kind, data):
        self.kind, self.data = kind, data

    def __repr__(self):
        return f"{self.kind}({self.data!r})"

    def on_char(self):
        return self.kind in ("ch_eq", "ch_in")

    def eval_char(self, c):
        if self.kind == "ch_eq":
            return c == self.data
        if self.kind == "ch_in":
            return c in self.data
        return None


def parse_cond(e, consts):
    """-> formula: ('atom', Cond) | ('not', f) | ('and', [f]) | ('or', [f])"""
    if isinstance(e, ast.BoolOp):
        return ("and" if isinstance(e.op, ast.And) else "or", [parse_cond(v, consts) for v in e.values])
    if isinstance(e, ast.UnaryOp) and isinstance(e.op, ast.Not):
        return ("not", parse_cond(e.operand, consts))
    if isinstance(e, ast.Compare) and len(e.ops) == 1 and isinstance(e.left, ast.Name):
        var, op, rhs = e.left.id, e.ops[0], e.comparators[0]
        if isinstance(rhs, ast.Constant) and isinstance(rhs.value, str):
            lit = rhs.value
        elif isinstance(rhs, ast.Name) and rhs.id in consts:
            lit = consts[rhs.id]
        elif isinstance(rhs, (ast.Tuple, ast.List, ast.Set)) and rhs.elts and all(
                isinstance(x, ast.Constant) and isinstance(x.value, str) for x in rhs.elts):
            lit = tuple(x.value for x in rhs.elts)
        else:
            raise LexShapeError(f"condition operand not a literal: {norm(e)}")
        if var == "ch":
            if isinstance(op, ast.Eq):
                return ("atom", Cond("ch_eq", lit))
            if isinstance(op, ast.NotEq):
                return ("not", ("atom", Cond("ch_eq", lit)))
            if isinstance(op, ast.In):
                return ("atom", Cond("ch_in", lit))
            if isinstance(op, ast.NotIn):
                return ("not", ("atom", Cond("ch_in", lit)))
        if var == "token":
            if isinstance(op, ast.Eq):
                return ("atom", Cond("tok_eq", lit))
            if isinstance(op, ast.NotEq):
                return ("not", ("atom", Cond("tok_eq", lit)))
            if isinstance(op, ast.In):
                return ("atom", Cond("tok_in", tuple(lit) if not isinstance(lit, str) else lit))
    if isinstance(e, ast.Name) and e.id == "token":
        return ("atom", Cond("tok_truthy", None))
    if isinstance(e, ast.Call) and norm(e.func) == "token.endswith" and len(e.args) == 1 \
            and isinstance(e.args[0], ast.Constant):
        return ("atom", Cond("tok_endswith", e.args[0].value))
    raise LexShapeError(f"unrecognised scanner condition: {norm(e)}")


def eval_formula(f, c):
    """Three-valued evaluation for character c: True / False / None (depends on the token buffer)."""
    op = f[0]
    if op == "atom":
        return f[1].eval_char(c)
    if op == "not":
        v = eval_formula(f[1], c)
        return None if v is None else (not v)
    vals = [eval_formula(x, c) for x in f[1]]
    if op == "and":
        if any(v is False for v in vals):
            return False
        return True if all(v is True for v in vals) else None
    if any(v is True for v in vals):
        return True
    return False if all(v is False for v in vals) else None


def formula_chars(f, acc):
    if f[0] == "atom":
        if f[1].on_char():
            acc.update(f[1].data)
    elif f[0] == "not":
        formula_chars(f[1], acc)
    else:
        for x in f[1]:
            formula_chars(x, acc)


class CT(tuple):
    """(formula, polarity) with the number of token appends that precede the test on its path."""

    def __new__(cls, f, pol, after=0):
        t = super().__new__(cls, (f, pol))
        t.after = after
        return t


class Emit:
    __slots__ = ("value", "type", "pos", "node", "value_text")

    def __init__(self, value, type_, pos, node):
        self.value, self.type, self.pos, self.node = value, type_, pos, node
        self.value_text = norm(value)


class Leaf:
    def __init__(self, state):
        self.state = state
        self.conds = []          # [(formula, polarity)]
        self.appends = []        # ('ch',) | ('lit', text) | ('expr', text)
        self.emits = []
        self.next_state = None
        self.unread = False
        self.updatepos_false = False
        self.raises = None       # text of the raised exception constructor
        self.tempbuf = []        # ops on the escape buffer
        self.token_reset = False
        self.token_rewrites = []  # token = <expr>  (not "")
        self.here_exprs = []
        self.first_line = 0
        self.in_try_convert = []  # conversions guarded by try (text)
        self.conversions = []     # (text, guarded: bool)
        self.locals = {}          # scratch local -> constant it was last set to on this path

    def clone(self):
        l = Leaf(self.state)
        for k, v in self.__dict__.items():
            setattr(l, k, list(v) if isinstance(v, list) else dict(v) if isinstance(v, dict) else v)
        return l

    def matches(self, c):
        """True / False / None (token dependent) whether this leaf is taken for character c."""
        res = True
        for f, pol in self.conds:
            v = eval_formula(f, c)
            if v is None:
                res = None
                continue
            if v != pol:
                return False
        return res

    def cond_text(self):
        return " & ".join(("" if p else "not ") + _ftext(f) for f, p in self.conds) or "always"

    def __repr__(self):
        return (f"<Leaf s{self.state} [{self.cond_text()}] app={self.appends} "
                f"emit={[(e.value_text, e.type) for e in self.emits]} -> {self.next_state} "
                f"{'UNREAD ' if self.unread else ''}{'RAISE' if self.raises else ''}>")


def _ftext(f):
    if f[0] == "atom":
        return repr(f[1])
    if f[0] == "not":
        return "not " + _ftext(f[1])
    return "(" + f" {f[0]} ".join(_ftext(x) for x in f[1]) + ")"


class LexModel:
    def __init__(self, model, prop="*"):
        lexer_mod = model.module(prop, "lexer")
        self.module = lexer_mod
        cls = lexer_mod.classes.get("Lexer")
        if cls is None or "scan" not in cls.methods:
            raise LexShapeError("Lexer.scan not found")
        self.func = cls.methods["scan"]
        self.consts = {}
        for name, val in lexer_mod.globals_assigned.items():
            if isinstance(val, ast.List) and all(isinstance(x, ast.Constant) for x in val.elts):
                self.consts[name] = tuple(x.value for x in val.elts)
        self.tables = {}      # module-level NAME = {const: const-or-tuple-of-consts}
        for name, val in lexer_mod.globals_assigned.items():
            if isinstance(val, ast.Dict) and val.keys and all(isinstance(k, ast.Constant) for k in val.keys) and all(
                    isinstance(v, ast.Constant) or isinstance(v, ast.Tuple) and all(
                        isinstance(x, ast.Constant) for x in v.elts) for v in val.values):
                self.tables[name] = {k.value: v for k, v in zip(val.keys, val.values)}
        self.states = {}      # int -> [Leaf]
        self.loop = None
        self.prelude = []
        self.init = {}        # variable -> initial value text
        self._extract()

    # ---------------------------------------------------------------------------
    def _extract(self):
        body = self.func.node.body
        loops = [s for s in body if isinstance(s, ast.While)]
        if len(loops) != 1:
            raise LexShapeError("scan() must contain exactly one top-level while loop")
        self.loop = loops[0]
        for s in body:
            if isinstance(s, ast.Assign) and len(s.targets) == 1 and isinstance(s.targets[0], ast.Name):
                self.init[s.targets[0].id] = norm(s.value)
        if norm(self.loop.test) != "pos < len(self.script)":
            raise LexShapeError(f"loop condition not understood: {norm(self.loop.test)}")
        chain = None
        self.prelude = []
        for s in self.loop.body:
            if isinstance(s, ast.If) and self._state_test(s.test) is not None:
                if chain is not None:
                    raise LexShapeError("more than one state dispatch chain")
                chain = s
            elif chain is None:
                self.prelude.append(s)
            else:
                raise LexShapeError("statement after the state dispatch chain")
        if chain is None:
            raise LexShapeError("state dispatch chain not found")
        # prelude: ch = self.script[pos]; pos += 1; line/column bookkeeping
        ptxt = [norm(s) for s in self.prelude]
        if "ch = self.script[pos]" not in ptxt or "pos += 1" not in ptxt:
            raise LexShapeError("loop prelude does not read and advance exactly once")
        if sum(1 for t in ptxt if t.startswith("pos")) != 1:
            raise LexShapeError("loop prelude changes pos more than once")
        node = chain
        while True:
            ks = self._state_test(node.test)
            if ks is None:
                raise LexShapeError(f"non-state test in dispatch chain: {norm(node.test)}")
            for k in ks:
                if k in self.states:
                    raise LexShapeError(f"state {k} dispatched twice")
                leaves = []
                body = node.body if len(ks) == 1 else self._specialise(node.body, k)
                self._exec(body, Leaf(k), leaves)
                self.states[k] = leaves
            if len(node.orelse) == 1 and isinstance(node.orelse[0], ast.If):
                node = node.orelse[0]
            elif not node.orelse:
                break
            else:
                raise LexShapeError("dispatch chain ends in a bare else")

    @staticmethod
    def _state_test(t):
        """states a dispatch test selects: `state == k` or `state in (k1, k2, ..)`"""
        if isinstance(t, ast.Compare) and isinstance(t.left, ast.Name) and t.left.id == "state" and len(t.ops) == 1:
            c = t.comparators[0]
            if isinstance(t.ops[0], ast.Eq) and isinstance(c, ast.Constant) and isinstance(c.value, int):
                return [c.value]
            if isinstance(t.ops[0], ast.In) and isinstance(c, (ast.Tuple, ast.List, ast.Set)) and c.elts and all(
                    isinstance(x, ast.Constant) and isinstance(x.value, int) for x in c.elts):
                return [x.value for x in c.elts]
        return None

    def _specialise(self, body, k):
        """The body of a branch shared by several states, for state k: `state` is the constant k, TABLE[k] is folded
        for module-level constant tables, and locals unpacked from such a constant are propagated."""
        import copy
        tables = self.tables

        class Fold(ast.NodeTransformer):
            def __init__(self):
                self.env = {"state": ast.Constant(value=k)}

            def visit_Name(self, n):
                if isinstance(n.ctx, ast.Load) and n.id in self.env:
                    return copy.deepcopy(self.env[n.id])
                return n

            def visit_Subscript(self, n):
                n = self.generic_visit(n)
                if isinstance(n.value, ast.Name) and n.value.id in tables and isinstance(n.slice, ast.Constant) \
                        and n.slice.value in tables[n.value.id]:
                    return copy.deepcopy(tables[n.value.id][n.slice.value])
                return n

        fold = Fold()
        out = []
        for st in copy.deepcopy(body):
            st = fold.visit(st)
            if isinstance(st, ast.Assign) and len(st.targets) == 1:
                t, v = st.targets[0], st.value
                if isinstance(t, ast.Tuple) and isinstance(v, ast.Tuple) and len(t.elts) == len(v.elts) \
                        and all(isinstance(x, ast.Name) for x in t.elts) and all(isinstance(x, ast.Constant) for x in v.elts):
                    names = [x.id for x in t.elts]
                    reassigned = any(isinstance(n, ast.Name) and n.id in names and isinstance(n.ctx, ast.Store)
                                     for s2 in body for n in ast.walk(s2)) and False
                    for nm, c in zip(names, v.elts):
                        fold.env[nm] = c
                    continue
            out.append(ast.fix_missing_locations(st))
        return out

    def _exec(self, stmts, leaf, out, guarded=False):
        """Abstractly execute a statement list; finished leaves go to `out`."""
        if not stmts:
            out.append(leaf)
            return
        st, rest = stmts[0], stmts[1:]
        if not leaf.first_line:
            leaf.first_line = getattr(st, "lineno", 0)
        if isinstance(st, ast.If):
            negs = []
            node = st
            while True:
                f = parse_cond(node.test, self.consts)
                k = len(leaf.appends)
                l2 = leaf.clone()
                l2.conds = l2.conds + negs + [CT(f, True, k)]
                sub = []
                self._exec(node.body, l2, sub, guarded)
                for s in sub:
                    self._exec(rest, s, out, guarded) if not s.raises else out.append(s)
                negs = negs + [CT(f, False, k)]
                if len(node.orelse) == 1 and isinstance(node.orelse[0], ast.If):
                    node = node.orelse[0]
                    continue
                l3 = leaf.clone()
                l3.conds = l3.conds + negs
                sub = []
                self._exec(node.orelse, l3, sub, guarded)
                for s in sub:
                    self._exec(rest, s, out, guarded) if not s.raises else out.append(s)
                return
        if isinstance(st, ast.Try):
            if st.finalbody or st.orelse:
                raise LexShapeError("try with else/finally in scanner")
            sub = []
            self._exec(st.body, leaf.clone(), sub, True)
            for s in sub:
                self._exec(rest, s, out, guarded) if not s.raises else out.append(s)
            for h in st.handlers:
                lh = leaf.clone()
                hs = []
                self._exec(h.body, lh, hs, guarded)
                for s in hs:
                    if not s.raises:
                        raise LexShapeError("except handler in scanner that does not raise")
                    s.raises = s.raises + f" [on {norm(h.type) if h.type else 'any'}]"
                    out.append(s)
            return
        if isinstance(st, ast.Raise):
            leaf.raises = norm(st.exc)
            out.append(leaf)
            return
        self._simple(st, leaf, guarded)
        self._exec(rest, leaf, out, guarded)

    def _note_conversions(self, node, leaf, guarded):
        for n in ast.walk(node):
            if isinstance(n, ast.Call) and isinstance(n.func, ast.Name) and n.func.id in ("int", "float", "chr"):
                leaf.conversions.append((norm(n), guarded))

    def _simple(self, st, leaf, guarded):
        txt = norm(st)
        self._note_conversions(st, leaf, guarded)
        if isinstance(st, ast.AugAssign) and isinstance(st.target, ast.Name):
            v = st.target.id
            if v == "token" and isinstance(st.op, ast.Add):
                if isinstance(st.value, ast.Name) and st.value.id == "ch":
                    leaf.appends.append(("ch",))
                elif isinstance(st.value, ast.Constant) and isinstance(st.value.value, str):
                    leaf.appends.append(("lit", st.value.value))
                else:
                    leaf.appends.append(("expr", norm(st.value)))
                return
            if v == "tempbuf" and isinstance(st.op, ast.Add):
                leaf.tempbuf.append(("append", norm(st.value)))
                return
            if v == "pos" and isinstance(st.op, ast.Sub) and isinstance(st.value, ast.Constant) \
                    and st.value.value == 1:
                if leaf.unread:
                    raise LexShapeError("character unread twice on one path")
                leaf.unread = True
                return
            raise LexShapeError(f"unrecognised scanner statement: {txt}")
        if isinstance(st, ast.Assign) and len(st.targets) == 1 and isinstance(st.targets[0], ast.Name):
            v = st.targets[0].id
            if v == "state":
                if not (isinstance(st.value, ast.Constant) and isinstance(st.value.value, int)):
                    raise LexShapeError(f"computed state: {txt}")
                leaf.next_state = st.value.value
                return
            if v == "token":
                if isinstance(st.value, ast.Constant) and st.value.value == "":
                    leaf.token_reset = True
                else:
                    leaf.token_rewrites.append(st.value)
                return
            if v == "tempbuf":
                leaf.tempbuf.append(("set", norm(st.value)))
                return
            if v == "updatepos":
                if isinstance(st.value, ast.Constant) and st.value.value is False:
                    leaf.updatepos_false = True
                    return
                raise LexShapeError(f"updatepos set to something else: {txt}")
            if v == "here":
                leaf.here_exprs.append(st.value)
                return
            if v in ("startline", "startcolumn"):
                leaf.tempbuf.append((v, norm(st.value)))
                return
            if v not in ("pos", "ch", "line", "column", "fname"):
                # a scratch local: cannot change the modelled scanner state
                leaf.tempbuf.append(("local:" + v, norm(st.value)))
                if isinstance(st.value, ast.Constant):
                    leaf.locals[v] = st.value
                else:
                    leaf.locals.pop(v, None)
                return
            raise LexShapeError(f"unrecognised scanner assignment: {txt}")
        if isinstance(st, ast.Expr) and isinstance(st.value, ast.Call) \
                and norm(st.value.func) == "self.tokens.append" and len(st.value.args) == 1:
            tok = st.value.args[0]
            ttype = tok.args[1] if isinstance(tok, ast.Call) and len(tok.args) == 3 else None
            if isinstance(ttype, ast.Name) and ttype.id in leaf.locals:
                ttype = leaf.locals[ttype.id]
            if isinstance(tok, ast.Call) and norm(tok.func) == "Token" and len(tok.args) == 3 \
                    and isinstance(ttype, ast.Constant):
                tok = ast.Call(func=tok.func, args=[tok.args[0], ttype, tok.args[2]], keywords=[])
                pos = tok.args[2]
                if isinstance(pos, ast.Name) and pos.id == "here" and leaf.here_exprs:
                    pos = leaf.here_exprs[-1]
                leaf.emits.append(Emit(tok.args[0], tok.args[1].value, pos, st))
                return
            raise LexShapeError(f"unrecognised token emission: {txt}")
        if isinstance(st, ast.Pass):
            return
        raise LexShapeError(f"unrecognised scanner statement: {txt}")

    # ---------------------------------------------------------------------------
    def alphabet(self):
        """Every character mentioned in any condition, plus a representative 'other' character."""
        acc = set()
        for leaves in self.states.values():
            for l in leaves:
                for f, _ in l.conds:
                    formula_chars(f, acc)
        return acc

    OTHER = "é"     # a character no condition mentions (checked by users)

    def step(self, state, c):
        """Leaves that may be taken in `state` on character c (token-dependent ones all included)."""
        return [l for l in self.states.get(state, []) if l.matches(c) is not False]

    def target(self, leaf):
        return leaf.state if leaf.next_state is None else leaf.next_state


# ----------------------------------------------------------------------------------------------------
class SimUnsupported(Exception):
    pass


def _eval_formula_concrete(f, c, token, consts):
    op = f[0]
    if op == "atom":
        a = f[1]
        if a.kind == "ch_eq":
            return c == a.data
        if a.kind == "ch_in":
            return c in a.data
        if a.kind == "tok_eq":
            return token == a.data
        if a.kind == "tok_in":
            return token in a.data
        if a.kind == "tok_truthy":
            return bool(token)
        if a.kind == "tok_endswith":
            return token.endswith(a.data)
        raise SimUnsupported(a.kind)
    if op == "not":
        return not _eval_formula_concrete(f[1], c, token, consts)
    vals = (_eval_formula_concrete(x, c, token, consts) for x in f[1])
    return all(vals) if op == "and" else any(vals)


def simulate(lm, text, max_steps=10000):
    """Run the EXTRACTED scanner table (not the repository's code) over `text`; returns [(value, type)].
    Only the effects the table models are interpreted; anything else raises SimUnsupported."""
    script = text + " "
    pos, state, token, out = 0, 0, "", []
    steps = 0
    while pos < len(script):
        steps += 1
        if steps > max_steps:
            raise SimUnsupported("no progress")
        c = script[pos]
        pos += 1
        taken = None
        def tok_after(leaf, k):
            t = token
            for a in leaf.appends[:k]:
                t += c if a[0] == "ch" else (a[1] if a[0] == "lit" else "")
            return t

        for leaf in lm.states.get(state, []):
            if all(_eval_formula_concrete(ct[0], c, tok_after(leaf, getattr(ct, "after", 0)), lm.consts) == ct[1]
                   for ct in leaf.conds):
                taken = leaf
                break
        if taken is None:
            raise SimUnsupported(f"no transition in state {state} on {c!r}")
        if taken.raises:
            out.append(("<error>", "error"))
            return out
        if taken.conversions or taken.token_rewrites or any(a[0] == "expr" for a in taken.appends):
            # numeric rewrites: keep the raw text (good enough for delimiter questions)
            pass
        # effects in source order are: appends, emits, reset - the table keeps them by kind; emits that use
        # `token` are evaluated after the appends of the same leaf (true for every branch of the scanner)
        for a in taken.appends:
            if a[0] == "ch":
                token += c
            elif a[0] == "lit":
                token += a[1]
        for e in taken.emits:
            import ast as _ast
            if isinstance(e.value, _ast.Constant):
                out.append((e.value.value, e.type))
            elif isinstance(e.value, _ast.Name) and e.value.id == "token":
                out.append((token, e.type))
            elif isinstance(e.value, _ast.Name) and e.value.id == "ch":
                out.append((c, e.type))
            else:
                out.append((token, e.type))
        if taken.token_reset:
            token = ""
        if taken.next_state is not None:
            state = taken.next_state
        if taken.unread:
            pos -= 1
    return out
