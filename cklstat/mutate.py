"""Mechanical behaviour-preserving rewrites of the package (used by the self-test: a check must stay silent on them).

  invert_else   `if c: A else: B`            ->  `if not c: B else: A`      (elif chains are left alone)
  nest_tail     `if c: A<always leaves>; R`  ->  `if c: A else: R`           (and the reverse, `flatten_tail`)
  aug           `x += e`                     ->  `x = x + e`  for simple names (and `x = x + e` -> `x += e`, `unaug`)

Each works on the syntax tree and writes the module back with ast.unparse (comments and layout are lost, which no
check looks at; line numbers change).  The rewrites do not change which expressions are evaluated, in which order, or
what they are applied to.
"""
import ast
import os


def _leaves(stmts):
    """does the statement list always end in return / raise / continue / break?"""
    if not stmts:
        return False
    last = stmts[-1]
    if isinstance(last, (ast.Return, ast.Raise, ast.Continue, ast.Break)):
        return True
    if isinstance(last, ast.If) and last.orelse:
        return _leaves(last.body) and _leaves(last.orelse)
    return False


def _neg(test):
    if isinstance(test, ast.UnaryOp) and isinstance(test.op, ast.Not):
        return test.operand
    return ast.UnaryOp(op=ast.Not(), operand=test)


class InvertElse(ast.NodeTransformer):
    def visit_If(self, n):
        self.generic_visit(n)
        if n.orelse and not (len(n.orelse) == 1 and isinstance(n.orelse[0], ast.If)):
            # `elif` arms are represented as a nested If in orelse: only plain else blocks are swapped
            return ast.copy_location(ast.If(test=_neg(n.test), body=n.orelse, orelse=n.body), n)
        return n


class _Blocks(ast.NodeTransformer):
    """applies self.block(stmts) to every statement list"""

    def generic_visit(self, node):
        super().generic_visit(node)
        for fld in ("body", "orelse", "finalbody"):
            v = getattr(node, fld, None)
            if isinstance(v, list) and v and isinstance(v[0], ast.stmt):
                setattr(node, fld, self.block(v))
        if isinstance(node, ast.Try):
            for h in node.handlers:
                h.body = self.block(h.body)
        return node


class NestTail(_Blocks):
    def block(self, stmts):
        for i, st in enumerate(stmts):
            if isinstance(st, ast.If) and not st.orelse and _leaves(st.body) and i + 1 < len(stmts):
                rest = stmts[i + 1:]
                # a nested function / class definition in the tail stays where it is (scoping is unaffected, but
                # keep the rewrite conservative)
                if any(isinstance(r, (ast.FunctionDef, ast.ClassDef)) for r in rest):
                    continue
                new = ast.copy_location(ast.If(test=st.test, body=st.body, orelse=self.block(rest)), st)
                return stmts[:i] + [new]
        return stmts


class FlattenTail(_Blocks):
    def block(self, stmts):
        out = []
        for i, st in enumerate(stmts):
            if isinstance(st, ast.If) and st.orelse and _leaves(st.body) and i == len(stmts) - 1 \
                    and not (len(st.orelse) == 1 and isinstance(st.orelse[0], ast.If)):
                out.append(ast.copy_location(ast.If(test=st.test, body=st.body, orelse=[]), st))
                out.extend(self.block(st.orelse))
                return out
            out.append(st)
        return out


class Aug(ast.NodeTransformer):
    def visit_AugAssign(self, n):
        if isinstance(n.target, ast.Name) and isinstance(n.op, (ast.Add, ast.Sub, ast.Mult)):
            return ast.copy_location(ast.Assign(
                targets=[ast.Name(id=n.target.id, ctx=ast.Store())],
                value=ast.BinOp(left=ast.Name(id=n.target.id, ctx=ast.Load()), op=n.op, right=n.value)), n)
        return n


class UnAug(ast.NodeTransformer):
    def visit_Assign(self, n):
        if len(n.targets) == 1 and isinstance(n.targets[0], ast.Name) and isinstance(n.value, ast.BinOp) \
                and isinstance(n.value.op, (ast.Add, ast.Sub)) and isinstance(n.value.left, ast.Name) \
                and n.value.left.id == n.targets[0].id:
            return ast.copy_location(ast.AugAssign(target=ast.Name(id=n.targets[0].id, ctx=ast.Store()),
                                                   op=n.value.op, value=n.value.right), n)
        return n


class FlipCmp(ast.NodeTransformer):
    """`i < 0` -> `0 > i` where one side is a numeric literal (host numbers: the two spellings are the same test)"""

    def visit_Compare(self, n):
        self.generic_visit(n)
        if len(n.ops) == 1 and isinstance(n.ops[0], (ast.Lt, ast.LtE, ast.Gt, ast.GtE)):
            r = n.comparators[0]
            rr = r.operand if isinstance(r, ast.UnaryOp) and isinstance(r.op, ast.USub) else r
            if isinstance(rr, ast.Constant) and isinstance(rr.value, (int, float)) and not isinstance(rr.value, bool):
                flip = {ast.Lt: ast.Gt, ast.Gt: ast.Lt, ast.LtE: ast.GtE, ast.GtE: ast.LtE}[type(n.ops[0])]
                return ast.copy_location(ast.Compare(left=r, ops=[flip()], comparators=[n.left]), n)
        return n


class ReturnIfExp(_Blocks):
    """`if c: return A` directly followed by `return B`  ->  `return A if c else B`"""

    def block(self, stmts):
        out = []
        i = 0
        while i < len(stmts):
            st = stmts[i]
            nxt = stmts[i + 1] if i + 1 < len(stmts) else None
            if isinstance(st, ast.If) and not st.orelse and len(st.body) == 1 and isinstance(st.body[0], ast.Return) \
                    and st.body[0].value is not None and isinstance(nxt, ast.Return) and nxt.value is not None:
                out.append(ast.copy_location(ast.Return(value=ast.IfExp(test=st.test, body=st.body[0].value,
                                                                           orelse=nxt.value)), st))
                i += 2
                continue
            out.append(st)
            i += 1
        return out


class ExpandReturnIfExp(_Blocks):
    """`return A if c else B`  ->  `if c: return A` / `return B`"""

    def block(self, stmts):
        out = []
        for st in stmts:
            if isinstance(st, ast.Return) and isinstance(st.value, ast.IfExp):
                v = st.value
                out.append(ast.copy_location(ast.If(test=v.test, body=[ast.Return(value=v.body)], orelse=[]), st))
                out.append(ast.copy_location(ast.Return(value=v.orelse), st))
            else:
                out.append(st)
        return out


MUTATORS = {"flip_cmp": FlipCmp, "return_ifexp": ReturnIfExp, "expand_return_ifexp": ExpandReturnIfExp,"invert_else": InvertElse, "nest_tail": NestTail, "flatten_tail": FlattenTail, "aug": Aug, "unaug": UnAug}


def rewrite_tree(root, name, only=None):
    """Apply mutator `name` to every module under <root>/src/ckl (in place).  -> number of modules rewritten"""
    pkg = os.path.join(root, "src", "ckl")
    n = 0
    for fn in sorted(os.listdir(pkg)):
        if not fn.endswith(".py") or (only and fn not in only):
            continue
        path = os.path.join(pkg, fn)
        src = open(path).read()
        tree = ast.parse(src)
        new = MUTATORS[name]().visit(tree)
        ast.fix_missing_locations(new)
        text = ast.unparse(new) + "\n"
        ast.parse(text)
        if text != ast.unparse(ast.parse(src)) + "\n":
            n += 1
        with open(path, "w") as f:
            f.write(text)
    return n
