"""Mechanical behaviour-preserving rewrites of the package (used by the self-test: a check must stay silent on them).

  invert_else   `if c: A else: B`            ->  `if not c: B else: A`      (elif chains are left alone)
  nest_tail     `if c: A<always leaves>; R`  ->  `if c: A else: R`           (and the reverse, `flatten_tail`)
  aug           `x += e`                     ->  `x = x + e`  for simple names (and `x = x + e` -> `x += e`, `unaug`)

Each works on the syntax tree and writes the module back with ast.unparse (comments and layout are lost, which no
check looks at; line numbers change).  The rewrites do not change which expressions are evaluated, in which order, or
what they are applied to.
"""
import ast
import os


def _leaves(stmts):
    """does the statement list always end in return / raise / continue / break?"""
    if not stmts:
        return False
    last = stmts[-1]
    if isinstance(last, (ast.Return, ast.Raise, ast.Continue, ast.Break)):
        return True
    if isinstance(last, ast.If) and last.orelse:
        return _leaves(last.body) and _leaves(last.orelse)
    return False


def _neg(test):
    if isinstance(test, ast.UnaryOp) and isinstance(test.op, ast.Not):
        return test.operand
    return ast.UnaryOp(op=ast.Not(), operand=test)


class InvertElse(ast.NodeTransformer):
    def visit_If(self, n):
        self.generic_visit(n)
        if n.orelse and not (len(n.orelse) == 1 and isinstance(n.orelse[0], ast.If)):
            # `elif` arms are represented as a nested If in orelse: only plain else blocks are swapped
            return ast.copy_location(ast.If(test=_neg(n.test), body=n.orelse, orelse=n.body), n)
        return n


class _Blocks(ast.NodeTransformer):
    """applies self.block(stmts) to every statement list"""

    def generic_visit(self, node):
        super().generic_visit(node)
        for fld in ("body", "orelse", "finalbody"):
            v = getattr(node, fld, None)
            if isinstance(v, list) and v and isinstance(v[0], ast.stmt):
                setattr(node, fld, self.block(v))
        if isinstance(node, ast.Try):
            for h in node.handlers:
                h.body = self.block(h.body)
        return node


class NestTail(_Blocks):
    def block(self, stmts):
        for i, st in enumerate(stmts):
            if isinstance(st, ast.If) and not st.orelse and _leaves(st.body) and i + 1 < len(stmts):
                rest = stmts[i + 1:]
                # a nested function / class definition in the tail stays where it is (scoping is unaffected, but
                # keep the rewrite conservative)
                if any(isinstance(r, (ast.FunctionDef, ast.ClassDef)) for r in rest):
                    continue
                new = ast.copy_location(ast.If(test=st.test, body=st.body, orelse=self.block(rest)), st)
                return stmts[:i] + [new]
        return stmts


class FlattenTail(_Blocks):
    def block(self, stmts):
        out = []
        for i, st in enumerate(stmts):
            if isinstance(st, ast.If) and st.orelse and _leaves(st.body) and i == len(stmts) - 1 \
                    and not (len(st.orelse) == 1 and isinstance(st.orelse[0], ast.If)):
                out.append(ast.copy_location(ast.If(test=st.test, body=st.body, orelse=[]), st))
                out.extend(self.block(st.orelse))
                return out
            out.append(st)
        return out


class Aug(ast.NodeTransformer):
    def visit_AugAssign(self, n):
        if isinstance(n.target, ast.Name) and isinstance(n.op, (ast.Add, ast.Sub, ast.Mult)):
            return ast.copy_location(ast.Assign(
                targets=[ast.Name(id=n.target.id, ctx=ast.Store())],
                value=ast.BinOp(left=ast.Name(id=n.target.id, ctx=ast.Load()), op=n.op, right=n.value)), n)
        return n


class UnAug(ast.NodeTransformer):
    def visit_Assign(self, n):
        if len(n.targets) == 1 and isinstance(n.targets[0], ast.Name) and isinstance(n.value, ast.BinOp) \
                and isinstance(n.value.op, (ast.Add, ast.Sub)) and isinstance(n.value.left, ast.Name) \
                and n.value.left.id == n.targets[0].id:
            return ast.copy_location(ast.AugAssign(target=ast.Name(id=n.targets[0].id, ctx=ast.Store()),
                                                   op=n.value.op, value=n.value.right), n)
        return n


class FlipCmp(ast.NodeTransformer):
    """`i < 0` -> `0 > i` where one side is a numeric literal (host numbers: the two spellings are the same test)"""

    def visit_Compare(self, n):
        self.generic_visit(n)
        if len(n.ops) == 1 and isinstance(n.ops[0], (ast.Lt, ast.LtE, ast.Gt, ast.GtE)):
            r = n.comparators[0]
            rr = r.operand if isinstance(r, ast.UnaryOp) and isinstance(r.op, ast.USub) else r
            if isinstance(rr, ast.Constant) and isinstance(rr.value, (int, float)) and not isinstance(rr.value, bool):
                flip = {ast.Lt: ast.Gt, ast.Gt: ast.Lt, ast.LtE: ast.GtE, ast.GtE: ast.LtE}[type(n.ops[0])]
                return ast.copy_location(ast.Compare(left=r, ops=[flip()], comparators=[n.left]), n)
        return n


class ReturnIfExp(_Blocks):
    """`if c: return A` directly followed by `return B`  ->  `return A if c else B`"""

    def block(self, stmts):
        out = []
        i = 0
        while i < len(stmts):
            st = stmts[i]
            nxt = stmts[i + 1] if i + 1 < len(stmts) else None
            if isinstance(st, ast.If) and not st.orelse and len(st.body) == 1 and isinstance(st.body[0], ast.Return) \
                    and st.body[0].value is not None and isinstance(nxt, ast.Return) and nxt.value is not None:
                out.append(ast.copy_location(ast.Return(value=ast.IfExp(test=st.test, body=st.body[0].value,
                                                                           orelse=nxt.value)), st))
                i += 2
                continue
            out.append(st)
            i += 1
        return out


class ExpandReturnIfExp(_Blocks):
    """`return A if c else B`  ->  `if c: return A` / `return B`"""

    def block(self, stmts):
        out = []
        for st in stmts:
            if isinstance(st, ast.Return) and isinstance(st.value, ast.IfExp):
                v = st.value
                out.append(ast.copy_location(ast.If(test=v.test, body=[ast.Return(value=v.body)], orelse=[]), st))
                out.append(ast.copy_location(ast.Return(value=v.orelse), st))
            else:
                out.append(st)
        return out


class ReturnTemp(_Blocks):
    """`return E` (E a call / operation) -> `_ret = E; return _ret`"""

    def block(self, stmts):
        out = []
        for st in stmts:
            if isinstance(st, ast.Return) and isinstance(st.value, (ast.Call, ast.BinOp, ast.Compare, ast.Subscript)):
                out.append(ast.copy_location(ast.Assign(targets=[ast.Name(id="_ret", ctx=ast.Store())], value=st.value), st))
                out.append(ast.copy_location(ast.Return(value=ast.Name(id="_ret", ctx=ast.Load())), st))
            else:
                out.append(st)
        return out


class DeMorgan(ast.NodeTransformer):
    """`not (a or b)` -> `not a and not b`, `not (a and b)` -> `not a or not b` (same operands, same order, same
    short-circuit)"""

    def visit_UnaryOp(self, n):
        self.generic_visit(n)
        if isinstance(n.op, ast.Not) and isinstance(n.operand, ast.BoolOp):
            op = ast.And() if isinstance(n.operand.op, ast.Or) else ast.Or()
            return ast.copy_location(ast.BoolOp(op=op, values=[_neg(v) for v in n.operand.values]), n)
        return n


class MergeNot(ast.NodeTransformer):
    """`not a and not b` -> `not (a or b)` (the reverse of DeMorgan, when every operand is negated)"""

    def visit_BoolOp(self, n):
        self.generic_visit(n)
        if len(n.values) >= 2 and all(isinstance(v, ast.UnaryOp) and isinstance(v.op, ast.Not) for v in n.values):
            op = ast.Or() if isinstance(n.op, ast.And) else ast.And()
            return ast.copy_location(ast.UnaryOp(op=ast.Not(), operand=ast.BoolOp(op=op, values=[v.operand for v in n.values])), n)
        return n


class SplitAnd(ast.NodeTransformer):
    """`if a and b: X` (no else) -> `if a: if b: X`"""

    def visit_If(self, n):
        self.generic_visit(n)
        if not n.orelse and isinstance(n.test, ast.BoolOp) and isinstance(n.test.op, ast.And) and len(n.test.values) == 2:
            inner = ast.copy_location(ast.If(test=n.test.values[1], body=n.body, orelse=[]), n)
            return ast.copy_location(ast.If(test=n.test.values[0], body=[inner], orelse=[]), n)
        return n


class MergeAnd(ast.NodeTransformer):
    """`if a: if b: X` (no else on either, nothing else in the outer body) -> `if a and b: X`"""

    def visit_If(self, n):
        self.generic_visit(n)
        if not n.orelse and len(n.body) == 1 and isinstance(n.body[0], ast.If) and not n.body[0].orelse:
            inner = n.body[0]
            return ast.copy_location(ast.If(test=ast.BoolOp(op=ast.And(), values=[n.test, inner.test]),
                                            body=inner.body, orelse=[]), n)
        return n


MUTATORS = {"return_temp": ReturnTemp, "demorgan": DeMorgan, "merge_not": MergeNot, "split_and": SplitAnd,
            "merge_and": MergeAnd,"flip_cmp": FlipCmp, "return_ifexp": ReturnIfExp, "expand_return_ifexp": ExpandReturnIfExp,"invert_else": InvertElse, "nest_tail": NestTail, "flatten_tail": FlattenTail, "aug": Aug, "unaug": UnAug}


def rewrite_tree(root, name, only=None):
    """Apply mutator `name` to every module under <root>/src/ckl (in place).  -> number of modules rewritten"""
    pkg = os.path.join(root, "src", "ckl")
    n = 0
    for fn in sorted(os.listdir(pkg)):
        if not fn.endswith(".py") or (only and fn not in only):
            continue
        path = os.path.join(pkg, fn)
        src = open(path).read()
        tree = ast.parse(src)
        new = MUTATORS[name]().visit(tree)
        ast.fix_missing_locations(new)
        text = ast.unparse(new) + "\n"
        ast.parse(text)
        if text != ast.unparse(ast.parse(src)) + "\n":
            n += 1
        with open(path, "w") as f:
            f.write(text)
    return n
