"""Normal form of the syntax trees the rules see.

Two spellings of the same thing are reduced to one before anything is analysed, so that no rule can depend on which
one the source uses:

  `if not X: A else: B`  ->  `if X: B else: A`          (plain else only; `elif` chains keep their order)
  `x = x + e`            ->  `x += e`                    (simple names; + - *)
  `0 > i`, `len(s) <= k`  ->  `i < 0`, `k >= len(s)`      (a numeric literal or len(..) on the left of an ordering
                                                          comparison moves to the right)
  `return A if c else B`  ->  `if c: return A` / `return B`
  `if a: if b: X` (no else on either, nothing else in the outer body)  ->  `if a and b: X`
  `t = E` directly followed by `return t`, t read nowhere else        ->  `return E`
  `if c: A else: R` where A always leaves (return / raise / continue / break, also through a nested if/else)
                         ->  `if c: A` followed by R     (so "early exit" and "else after return" are one shape, and an
                                                          elif chain of returning arms is a sequence of ifs)

Line numbers are kept.  The pinned tree contains three sites of the first kind and eight of the second.
"""
import ast


class Normalise(ast.NodeTransformer):
    def visit_If(self, n):
        self.generic_visit(n)
        while not n.orelse and len(n.body) == 1 and isinstance(n.body[0], ast.If) and not n.body[0].orelse:
            inner = n.body[0]
            n.test = ast.copy_location(ast.BoolOp(op=ast.And(), values=(
                (n.test.values if isinstance(n.test, ast.BoolOp) and isinstance(n.test.op, ast.And) else [n.test]) +
                (inner.test.values if isinstance(inner.test, ast.BoolOp) and isinstance(inner.test.op, ast.And)
                 else [inner.test]))), n.test)
            n.body = inner.body
        if n.orelse and not (len(n.orelse) == 1 and isinstance(n.orelse[0], ast.If)) \
                and isinstance(n.test, ast.UnaryOp) and isinstance(n.test.op, ast.Not):
            n.test, n.body, n.orelse = n.test.operand, n.orelse, n.body
        return n

    def visit_Compare(self, n):
        self.generic_visit(n)
        if len(n.ops) == 1 and isinstance(n.ops[0], (ast.Lt, ast.LtE, ast.Gt, ast.GtE)):
            l, r = n.left, n.comparators[0]

            def lit(e):
                if isinstance(e, ast.UnaryOp) and isinstance(e.op, ast.USub):
                    e = e.operand
                return isinstance(e, ast.Constant) and isinstance(e.value, (int, float)) and not isinstance(e.value, bool)

            if lit(l) and not lit(r):
                flip = {ast.Lt: ast.Gt, ast.Gt: ast.Lt, ast.LtE: ast.GtE, ast.GtE: ast.LtE}[type(n.ops[0])]
                n.left, n.comparators, n.ops = r, [l], [flip()]
        return n

    def visit_Assign(self, n):
        self.generic_visit(n)
        if len(n.targets) == 1 and isinstance(n.targets[0], ast.Name) and isinstance(n.value, ast.BinOp) \
                and isinstance(n.value.op, (ast.Add, ast.Sub, ast.Mult)) and isinstance(n.value.left, ast.Name) \
                and n.value.left.id == n.targets[0].id:
            return ast.copy_location(ast.AugAssign(target=n.targets[0], op=n.value.op, value=n.value.right), n)
        return n


def _leaves(stmts):
    if not stmts:
        return False
    last = stmts[-1]
    if isinstance(last, (ast.Return, ast.Raise, ast.Continue, ast.Break)):
        return True
    if isinstance(last, ast.If) and last.orelse:
        return _leaves(last.body) and _leaves(last.orelse)
    if isinstance(last, ast.Try) and not last.finalbody and not last.orelse:
        return _leaves(last.body) and all(_leaves(h.body) for h in last.handlers)
    return False


def _size(stmts):
    return sum(1 for st in stmts for _ in ast.walk(st))


def _neg(test):
    if isinstance(test, ast.UnaryOp) and isinstance(test.op, ast.Not):
        return test.operand
    return ast.copy_location(ast.UnaryOp(op=ast.Not(), operand=test), test)


def _text(stmts):
    return "\n".join(ast.unparse(x) for x in stmts)


def _expand_return_ifexp(stmts):
    out = []
    for st in stmts:
        if isinstance(st, ast.Return) and isinstance(st.value, ast.IfExp):
            v = st.value
            out.append(ast.copy_location(ast.If(test=v.test, body=[ast.copy_location(ast.Return(value=v.body), st)],
                                                orelse=[ast.copy_location(ast.Return(value=v.orelse), st)]), st))
        else:
            out.append(st)
    return out


def _flatten_block(stmts):
    """Early-exit normal form of one block.  An `if` one of whose two continuations always leaves (the other
    continuation being its else arm or, when its body leaves, the rest of the block) is written as
    `if <test>: <the leaving arm>` followed by the other arm; when both leave, the smaller one is the guarded arm
    (ties by text), so the result does not depend on which way round the source wrote it."""
    stmts = _expand_return_ifexp(list(stmts))
    i = 0
    while i < len(stmts):
        st = stmts[i]
        if isinstance(st, ast.If):
            a = st.body
            following = stmts[i + 1:]
            if st.orelse:
                b, b_is_rest = st.orelse, False
            elif _leaves(a) and following:
                b, b_is_rest = following, True
            else:
                b, b_is_rest = None, False
            if b is not None:
                la, lb = _leaves(a), _leaves(b)
                guarded = None
                if la and lb:
                    guarded = "a" if (_size(a), _text(a)) <= (_size(b), _text(b)) else "b"
                elif la:
                    guarded = "a"
                elif lb:
                    guarded = "b"
                if guarded == "a" and not b_is_rest:
                    st.orelse = []
                    stmts = stmts[:i + 1] + list(b) + following
                elif guarded == "b":
                    new = ast.copy_location(ast.If(test=_neg(st.test), body=list(b), orelse=[]), st)
                    stmts = stmts[:i] + [new] + list(a) + ([] if b_is_rest else following)
        i += 1
    for x in stmts:
        _flatten_node(x)
    return stmts


def _flatten_node(node):
    for fld in ("body", "orelse", "finalbody"):
        v = getattr(node, fld, None)
        if isinstance(v, list) and v and isinstance(v[0], ast.stmt):
            setattr(node, fld, _flatten_block(v))
    if isinstance(node, ast.Try):
        for h in node.handlers:
            h.body = _flatten_block(h.body)
    if isinstance(node, ast.ClassDef) or isinstance(node, ast.Module):
        pass


def _inline_return_temps(fn):
    """`t = E; return t` -> `return E` when every read of t in the function is such a return"""
    loads = {}
    for n in ast.walk(fn):
        if isinstance(n, ast.Name) and isinstance(n.ctx, ast.Load):
            loads[n.id] = loads.get(n.id, 0) + 1
    pairs = {}

    def scan(stmts, apply):
        out = []
        i = 0
        while i < len(stmts):
            st = stmts[i]
            nxt = stmts[i + 1] if i + 1 < len(stmts) else None
            if isinstance(st, ast.Assign) and len(st.targets) == 1 and isinstance(st.targets[0], ast.Name) \
                    and isinstance(nxt, ast.Return) and isinstance(nxt.value, ast.Name) \
                    and nxt.value.id == st.targets[0].id:
                t = st.targets[0].id
                if apply is None:
                    pairs[t] = pairs.get(t, 0) + 1
                elif t in apply:
                    out.append(ast.copy_location(ast.Return(value=st.value), st))
                    i += 2
                    continue
            for fld in ("body", "orelse", "finalbody"):
                v = getattr(st, fld, None)
                if isinstance(v, list) and v and isinstance(v[0], ast.stmt) and not isinstance(st, (ast.FunctionDef, ast.ClassDef)):
                    setattr(st, fld, scan(v, apply))
            if isinstance(st, ast.Try):
                for h in st.handlers:
                    h.body = scan(h.body, apply)
            out.append(st)
            i += 1
        return out

    scan(fn.body, None)
    ok = {t for t, k in pairs.items() if loads.get(t, 0) == k}
    if ok:
        fn.body = scan(fn.body, ok)


def normalise(tree):
    for fn in [n for n in ast.walk(tree) if isinstance(n, (ast.FunctionDef, ast.AsyncFunctionDef))]:
        _inline_return_temps(fn)
    Normalise().visit(tree)
    tree.body = _flatten_block(tree.body)
    ast.fix_missing_locations(tree)
    return tree
