"""E7: abstract interpreter for parser.py over the lexer-cursor API (loop-progress analysis).

State = (tokens consumed so far on this path, known next token or None, set of tokens the next token is
known NOT to be).  Transfer functions model hasNext / peekn / peekOne / matchIf / match / matchIdentifier /
next / eat / previous; parser functions taking `lexer` are summarised by the minimum number of tokens a
normally-returning path consumes (fixpoint), except the small helpers _invoke/_call/_deref, which are
inlined under the caller's look-ahead facts.  For every `while` loop every path through the body that
reaches the back edge must have consumed at least one token, unless the look-ahead facts it carries
falsify the loop condition.
"""
import ast

INF = 10 ** 6
INLINE = set()      # (helpers are inlined by what they do, not by name: see Exec.call)


def module_string_sets(tree):
    """module-level NAME = [..] / (..) / {..} / {k: v} of string constants -> {NAME: [strings]}"""
    out = {}
    for st in tree.body:
        if isinstance(st, ast.Assign) and len(st.targets) == 1 and isinstance(st.targets[0], ast.Name):
            v = st.value
            elts = v.keys if isinstance(v, ast.Dict) else v.elts if isinstance(v, (ast.List, ast.Tuple, ast.Set)) else None
            if elts and all(isinstance(x, ast.Constant) and isinstance(x.value, str) for x in elts):
                out[st.targets[0].id] = [x.value for x in elts]
    return out


def const_strings(e, consts):
    """strings an expression denotes: literal list/tuple/set, a module-level table, list(T) / tuple(T) / sorted(T) /
    set(T) / T.keys(); None when it cannot be told"""
    if isinstance(e, (ast.List, ast.Tuple, ast.Set)):
        if all(isinstance(x, ast.Constant) and isinstance(x.value, str) for x in e.elts):
            return [x.value for x in e.elts]
        return None
    if isinstance(e, ast.Name):
        return consts.get(e.id)
    if isinstance(e, ast.Call) and isinstance(e.func, ast.Name) and e.func.id in ("list", "tuple", "sorted", "set", "frozenset") \
            and len(e.args) == 1:
        return const_strings(e.args[0], consts)
    if isinstance(e, ast.Call) and isinstance(e.func, ast.Attribute) and e.func.attr == "keys" and not e.args:
        return const_strings(e.func.value, consts)
    return None

class S:
    __slots__ = ("c", "known", "excl")
    def __init__(s, c=0, known=None, excl=frozenset()):
        s.c, s.known, s.excl = c, known, excl
    def consume(s, n=1):
        return S(s.c + n, None, frozenset())
    def key(s): return (s.c, s.known, s.excl)
    def __repr__(s): return f"<c={s.c} known={s.known} excl={sorted(s.excl)}>"

def tok(call, i=0):
    """token constant of peekn/matchIf style call; returns (value,type) or None"""
    a = call.args
    try:
        if call.func.attr == "peekn":
            n = a[0].value; v = a[1].value; t = a[2].value if len(a) > 2 else None
            return n, (v, t)
        if call.func.attr == "matchIf":
            if isinstance(a[0], ast.Constant):
                return 1, (a[0].value, a[1].value if len(a) > 1 else None)
            return len(a[0].elts), "LIST"
    except Exception:
        pass
    return None, None

def same(a, b):
    """token equality: True/False/None(unknown)"""
    if a[0] != b[0]:
        return False
    if a[1] is None or b[1] is None:
        return True if a[0] in ("in",) else None
    return a[1] == b[1]

class Exec:
    def __init__(self, funcs, summary, consts=None):
        self.consts = consts or {}
        self.inlining = []
        self.unknown = []
        self.viol = []
        self.loops_seen = set()
        self.funcs = funcs
        self.summary = summary

    # evaluate a condition: yields (truth, state)
    def cond(self, e, st):
        if isinstance(e, ast.UnaryOp) and isinstance(e.op, ast.Not):
            for t, s in self.cond(e.operand, st):
                yield (not t if t is not None else None), s
            return
        if isinstance(e, ast.BoolOp):
            def rec(vals, st):
                if not vals:
                    yield (isinstance(e.op, ast.And)), st
                    return
                for t, s in self.cond(vals[0], st):
                    if isinstance(e.op, ast.And):
                        if t is False:
                            yield False, s
                        else:
                            for t2, s2 in rec(vals[1:], s):
                                yield (t2 if t is True else (False if t2 is False else None)), s2
                    else:
                        if t is True:
                            yield True, s
                        else:
                            for t2, s2 in rec(vals[1:], s):
                                yield (t2 if t is False else (True if t2 is True else None)), s2
            yield from rec(e.values, st)
            return
        if isinstance(e, ast.Call) and isinstance(e.func, ast.Attribute) and isinstance(e.func.value, ast.Name) and e.func.value.id == "lexer":
            a = e.func.attr
            if a in ("peekn", "matchIf"):
                n, tk = tok(e)
                if n is None:
                    # token not a literal: a success still means at least one token is there / was consumed
                    self.unknown.append(" ".join(ast.unparse(e).split()))
                    yield True, (st.consume(1) if a == "matchIf" else st)
                    yield False, st
                    return
                if tk == "LIST":
                    yield True, st.consume(n)
                    yield False, st
                    return
                if n == 1 and tk is not None:
                    if st.known is not None:
                        eq = same(st.known, tk)
                        if eq is True:
                            yield True, (st.consume() if a == "matchIf" else st); return
                        if eq is False:
                            yield False, st; return
                    elif tk in st.excl:
                        yield False, st; return
                    if st.known == "EOF":
                        yield False, st; return
                    yield True, (st.consume() if a == "matchIf" else S(st.c, tk, frozenset()))
                    yield False, S(st.c, st.known, st.excl | {tk})
                    return
                yield True, (st.consume(n) if a == "matchIf" else st)
                yield False, st
                return
            if a == "peekOne":
                strs = const_strings(e.args[1], self.consts) if len(e.args) > 1 else None
                ttype = e.args[2].value if len(e.args) > 2 and isinstance(e.args[2], ast.Constant) else None
                if strs is None:
                    self.unknown.append(" ".join(ast.unparse(e).split()))
                    yield True, st
                    yield False, st
                    return
                toks = [(x, ttype) for x in strs]
                excl = st.excl
                for tk in toks:
                    if st.known is not None and st.known != "EOF":
                        if same(st.known, tk) is True:
                            yield True, st; return
                        continue
                    if tk in st.excl:
                        continue
                    yield True, S(st.c, tk, frozenset())
                    excl = excl | {tk}
                yield False, S(st.c, st.known, excl)
                return
            if a == "hasNext":
                if st.known is not None and st.known != "EOF":
                    yield True, st; return
                yield True, st
                yield False, S(st.c, "EOF", frozenset())
                return
        # unknown condition: evaluate for side effects (calls) then branch
        outs = list(self.expr(e, st))
        for s in outs:
            yield None, s

    # evaluate expression for its lexer effects: yields states
    def expr(self, e, st):
        states = [st]
        for sub in self.calls_in_order(e):
            nxt = []
            for s in states:
                nxt += list(self.call(sub, s))
            states = nxt
        return states

    def calls_in_order(self, e):
        out = []
        class V(ast.NodeVisitor):
            def visit_Call(v, n):
                for c in ast.iter_child_nodes(n):
                    v.visit(c)
                out.append(n)
        V().visit(e)
        return out

    def call(self, c, st):
        f = c.func
        if isinstance(f, ast.Attribute) and isinstance(f.value, ast.Name) and f.value.id == "lexer":
            a = f.attr
            if a in ("match", "matchIdentifier", "next"):
                yield st.consume(); return
            if a == "eat":
                yield st.consume(c.args[0].value); return
            if a == "previous":
                yield S(st.c - 1, None, frozenset()); return
            if a in ("matchIf",):
                for t, s in self.cond(c, st):
                    yield s
                return
            yield st; return
        if isinstance(f, ast.Name) and f.id in self.funcs and any(isinstance(x, ast.Name) and x.id == "lexer" for x in c.args):
            # small helpers that may consume nothing (they start with their own look-ahead test) are analysed
            # under the caller's look-ahead facts instead of through their summary
            inline = f.id in INLINE or (self.summary.get(f.id, INF) == 0 and f.id not in self.inlining
                                        and len(self.inlining) < 2 and not f.id.startswith("parse_"))
            if inline:
                self.inlining.append(f.id)
                try:
                    outs_ = self.run_function(self.funcs[f.id], S(0, st.known, st.excl))
                finally:
                    self.inlining.pop()
                for s in outs_:
                    yield S(st.c + s.c, s.known if s.c == 0 else None, s.excl if s.c == 0 else frozenset())
                return
            if False:
                for s in self.run_function(self.funcs[f.id], S(0, st.known, st.excl)):
                    yield S(st.c + s.c, s.known if s.c == 0 else None, s.excl if s.c == 0 else frozenset())
                return
            m = self.summary[f.id]
            if m >= INF:
                return   # no returning path known yet
            if m <= 0:
                yield S(st.c + m, st.known, st.excl)
            yield st.consume(max(m, 1))
            return
        yield st

    def run_function(self, fn, st):
        outs = []
        self.block(fn.body, [st], outs)
        return outs

    def block(self, stmts, states, rets, loopctx=None):
        """returns fallthrough states; appends returned states to rets; loopctx collects ('break'|'continue', state)"""
        for s in stmts:
            if not states:
                return []
            # dedupe
            d = {}
            for x in states: d[x.key()] = x
            states = list(d.values())
            states = self.stmt(s, states, rets, loopctx)
        return states

    def stmt(self, s, states, rets, loopctx):
        out = []
        if isinstance(s, ast.If):
            tstates, fstates = [], []
            for st in states:
                for t, ns in self.cond(s.test, st):
                    if t is not False: tstates.append(ns)
                    if t is not True: fstates.append(ns)
            out += self.block(s.body, tstates, rets, loopctx)
            out += self.block(s.orelse, fstates, rets, loopctx)
            return out
        if isinstance(s, ast.While):
            return self.loop(s, states, rets)
        if isinstance(s, ast.For):
            # host-level for loops (over lists) : body once + skip
            o1 = self.block(s.body, list(states), rets, loopctx=[])
            return states + o1
        if isinstance(s, ast.Return):
            for st in states:
                rets += self.expr(s.value, st) if s.value else [st]
            return []
        if isinstance(s, ast.Raise):
            return []
        if isinstance(s, ast.Break):
            if loopctx is not None:
                loopctx += [("break", st) for st in states]
            return []
        if isinstance(s, ast.Continue):
            if loopctx is not None:
                loopctx += [("continue", st) for st in states]
            return []
        if isinstance(s, (ast.Assign, ast.Expr, ast.AugAssign)):
            e = s.value
            for st in states:
                out += self.expr(e, st)
            return out
        return states

    def loop(self, w, states, rets):
        exits = []
        self.loops_seen.add(w.lineno)
        for st in states:
            # iteration from entry state and from "any" state (facts unknown, relative consumption 0)
            for start in (st, S(st.c, None, frozenset())):
                for t, s0 in self.cond(w.test, start):
                    if t is not True:
                        exits.append(s0)
                    if t is not False:
                        ctx = []
                        body_start = S(0, s0.known, s0.excl) if s0.c == start.c else S(s0.c - start.c, None, frozenset())
                        ends = self.block(w.body, [body_start], rets_proxy := [], loopctx=ctx)
                        for r in rets_proxy:
                            rets.append(S(start.c + r.c, r.known, r.excl))
                        for kind, e in ctx:
                            if kind == "break":
                                exits.append(S(start.c + e.c, e.known, e.excl))
                            else:
                                ends.append(e)
                        for e in ends:
                            if e.c >= 1:
                                continue
                            # zero (or negative) consumption at back edge: does the loop condition fail now?
                            again = [t2 for t2, _ in self.cond(w.test, e)]
                            if any(t2 is not False for t2 in again):
                                self.viol.append((w, repr(e)))
                        # after >=1 iterations, exit with unknown facts
                        exits.append(S(start.c + 1, None, frozenset()))
        return exits




def analyse(parser_tree):
    """-> (summary {name: min consumed}, violations [(func name, while node, state text)], loops {(func, lineno)},
    rounds, look-ahead conditions whose token set could not be resolved)"""
    funcs = {n.name: n for n in parser_tree.body if isinstance(n, ast.FunctionDef)}
    consts = module_string_sets(parser_tree)
    unknown = []
    lexer_funcs = [n for n, f in funcs.items() if "lexer" in [a.arg for a in f.args.args]]
    summary = {n: INF for n in funcs}
    rounds = 0
    for rounds in range(1, 40):
        changed = False
        for name in lexer_funcs:
            ex = Exec(funcs, summary, consts)
            outs = ex.run_function(funcs[name], S())
            m = min([o.c for o in outs], default=INF)
            if m != summary[name]:
                summary[name] = m
                changed = True
        if not changed:
            break
    else:
        raise RuntimeError("summary fixpoint did not converge")
    viol = []
    loops = set()
    seen = set()
    for name in lexer_funcs:
        ex = Exec(funcs, summary, consts)
        ex.run_function(funcs[name], S())
        unknown += ex.unknown
        for w in ast.walk(funcs[name]):
            if isinstance(w, ast.While):
                loops.add((name, w.lineno, " ".join(ast.unparse(w.test).split())))
        for w, st in ex.viol:
            k = (name, w.lineno, st)
            if k not in seen:
                seen.add(k)
                viol.append((name, w, st))
    return {n: summary[n] for n in lexer_funcs}, viol, loops, rounds, sorted(set(unknown))
