"""Partial evaluation of a statement list under known truth values of some test expressions.

Used to specialise an evaluator to one value kind (`lst.isSet()` true, every other `lst.isX()` false) so that a rule
can look at the code that runs for that kind, however the branches are merged or ordered."""
import ast
import copy

from .core import norm


def pe_test(e, known):
    """True / False / None"""
    t = norm(e)
    if t in known:
        return known[t]
    if isinstance(e, ast.Constant):
        return bool(e.value)
    if isinstance(e, ast.UnaryOp) and isinstance(e.op, ast.Not):
        v = pe_test(e.operand, known)
        return None if v is None else not v
    if isinstance(e, ast.BoolOp):
        vals = [pe_test(v, known) for v in e.values]
        if isinstance(e.op, ast.And):
            if any(v is False for v in vals):
                return False
            return True if all(v is True for v in vals) else None
        if any(v is True for v in vals):
            return True
        return False if all(v is False for v in vals) else None
    return None


class _Expr(ast.NodeTransformer):
    def __init__(self, known):
        self.known = known

    def visit_IfExp(self, n):
        v = pe_test(n.test, self.known)
        if v is True:
            return self.visit(n.body)
        if v is False:
            return self.visit(n.orelse)
        return self.generic_visit(n)


def pe_expr(e, known):
    return _Expr(known).visit(copy.deepcopy(e))


def prune(stmts, known):
    """Statements that can run, in order; conditionals with a decided test are replaced by the taken branch; code
    after a statement that always leaves (return / raise) is dropped.  -> (statements, leaves: bool)"""
    out = []
    for st in stmts:
        if isinstance(st, ast.If):
            v = pe_test(st.test, known)
            if v is True:
                body, leaves = prune(st.body, known)
                out += body
                if leaves:
                    return out, True
                continue
            if v is False:
                body, leaves = prune(st.orelse, known)
                out += body
                if leaves:
                    return out, True
                continue
            b1, l1 = prune(st.body, known)
            b2, l2 = prune(st.orelse, known)
            new = copy.copy(st)
            new.body, new.orelse = b1 or [ast.Pass()], b2
            out.append(new)
            if l1 and l2 and st.orelse:
                return out, True
            continue
        if isinstance(st, (ast.For, ast.While, ast.With, ast.Try)):
            new = copy.copy(st)
            new.body, _ = prune(st.body, known)
            new.body = new.body or [ast.Pass()]
            out.append(new)
            continue
        if isinstance(st, (ast.Assign, ast.Expr, ast.Return, ast.AugAssign)) and st.value is not None:
            new = copy.copy(st)
            new.value = pe_expr(st.value, known)
            out.append(new)
        else:
            out.append(st)
        if isinstance(st, (ast.Return, ast.Raise)):
            return out, True
    return out, False
