"""Counting and must-pass dataflows over the CFG (E3), used for pairing / exactly-once / ordering rules.

count_events(cfg, delta)      forward analysis whose state is the set of possible net counts; `delta(node, label,
                              succ)` gives the increment contributed by taking that edge.  Returns the sets at the
                              normal exit and at the exceptional exit (and per node).
must_pass(cfg, tag_of)        forward must-analysis: which tags have certainly been passed (on every path)
                              when a node is reached; `tag_of(node, label)` returns a tag or None for an edge.
"""

CAP = 4


def count_events(cfg, delta, start=0):
    def transfer(node, label, state):
        succ = None
        for l, t in node.succ:
            if l == label:
                succ = t
        # a node may have several successors with the same label only in dispatch nodes; delta gets the label
        d = delta(node, label, succ)
        return frozenset(max(-CAP, min(CAP, c + d)) for c in state)

    def join(a, b):
        return a | b

    state = cfg.dataflow(frozenset({start}), transfer, join)
    return state


def must_pass(cfg, tag_of):
    def transfer(node, label, state):
        t = tag_of(node, label)
        if t is None:
            return state
        if isinstance(t, (set, frozenset, list, tuple)):
            return state | frozenset(t)
        return state | {t}

    def join(a, b):
        return a & b

    return cfg.dataflow(frozenset(), transfer, join)


def stmt_calls(node, pred):
    """Does the CFG node's own AST contain a call satisfying pred?"""
    import ast
    a = node.ast
    if a is None:
        return False
    if node.kind == "for":
        a = node.ast.iter
    for x in ast.walk(a):
        if isinstance(x, ast.Call) and pred(x):
            return True
    return False
