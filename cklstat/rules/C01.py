"""C01 - Parsing is total: every source text yields a program or a syntax error.

Decided statically (necessary structural conditions, for every text at once):
  C01.cursor          who-may-subscript + guard dominance: the token array is indexed only inside class
                      Lexer and every index is dominated by a bounds test on the same cursor; the cursor
                      invariant 0 <= nextToken <= len(tokens) is kept by each of its writers, and every
                      `eat(k)` follows a look-ahead success establishing k tokens
  C01.conv            every partial host conversion on the parse path (int, float, chr, regex compile) is
                      inside a handler that turns the host error into CklSyntaxError, or its argument is a
                      token whose scanner alphabet lies inside the conversion's domain
  C01.progress.scan   the scanner consumes one character per step; the transitions that unread the
                      character form an acyclic graph (termination in <= 3*len steps)
  C01.progress.parse  every parser `while` loop consumes a token on each path to its back edge (E7)
  C01.init            no constructor on the parse path reads an attribute it has not yet set
  C01.attr            attributes read from parse results of varying node class exist on every class the
                      producing function can return
  C01.index           constant indices on the parse path ([0], [-1]) are dominated by a length test
  C01.raise           everything raised on the parse path is CklSyntaxError(msg, pos) with a position;
                      the end-of-input message agrees with the REPL's continuation test
  C01.pure            the parse path touches no ambient state (same text, same outcome)
Not decided: recursion depth, the 4300-digit int() limit of CPython, that the accepted language is the
intended one.
"""
import ast

from ..callgraph import CallGraph
from ..cfg import CFG
from ..core import norm
from ..facts import must_facts, nodes_containing
from ..lexmodel import LexModel, LexShapeError
from .. import parsemodel

P = "C01"
EXPLANATION = __doc__
TECHNIQUE = ("guard-dominance dataflow on per-function CFGs, extracted scanner automaton (unread-graph "
             "acyclicity, alphabet containment), abstract interpretation of the parser over the lexer-cursor API")
LEVEL_TEXT = (
    "Static analysis of lexer.py/parser.py and the constructors they call: decides, for every input text at "
    "once, that token-array reads are bounds-guarded, host conversions are guarded or total on their scanner "
    "alphabet, scanner and parser loops make progress, constructors do not read unset fields, only positioned "
    "CklSyntaxError is raised and no ambient state is read. Each clause is a necessary condition of totality; "
    "together they rule out the enumerated classes of host exception and non-termination, not every conceivable "
    "one (recursion depth and the host int-digit limit are excluded).")
LEVEL_NOTE = ("Trusted: CPython ast and list/str/int semantics; the scanner and parser model extractors (unknown "
              "shapes stop the analysis with exit 2).")
ASSUMPTIONS = ["nesting depth below the host recursion limit", "integer literals shorter than CPython's "
               "4300-digit int() conversion limit"]
FLOORS = {"C01.cursor": 12, "C01.conv": 6, "C01.progress.scan": 60, "C01.progress.parse": 26,
          "C01.init": 40, "C01.raise": 20, "C01.pure": 20}

CURSOR = "self.nextToken"
TOKENS = "self.tokens"
CONSUMERS = {"next", "eat", "previous", "match", "matchIdentifier", "matchIf", "scan"}


def run(ctx):
    model = ctx.model
    cg = CallGraph(model)
    lexer_mod = model.module(P, "lexer")
    parser_mod = model.module(P, "parser")
    lexer_cls = model.cls(P, "Lexer")
    try:
        lm = LexModel(model, P)
    except LexShapeError as e:
        ctx.broken("Lexer.scan", str(e))

    cursor(ctx, model, cg, lexer_cls)
    progress_scan(ctx, lm)
    progress_parse(ctx, parser_mod)
    reach = parse_reach(ctx, model, cg)
    conv(ctx, model, cg, lm, reach)
    init(ctx, model, reach)
    attr(ctx, model, parser_mod)
    raises(ctx, model, cg, reach)
    pure(ctx, model, cg, reach)
    index(ctx, model, parser_mod, lexer_cls)


# --------------------------------------------------------------------------------------------------
def parse_reach(ctx, model, cg):
    ps = model.func(P, "parser", "parse_script")

    def flt(mname, cand):
        # the parse path never evaluates: method names shared with evaluators are not followed
        return mname not in ("evaluate", "execute", "collectVars")

    seen = cg.reach([ps], dispatch_filter=flt)
    if len(seen) < 60:
        ctx.broken("parse_script", f"reach set has only {len(seen)} functions")
    return seen


def _kills_cursor(stmt, fact_text):
    """Facts about the token cursor die when the cursor may move."""
    from ..facts import default_kills
    if default_kills(stmt, fact_text):
        return True
    if "nextToken" in fact_text or "hasNext" in fact_text or "peek" in fact_text:
        for n in ast.walk(stmt):
            if isinstance(n, ast.Call) and isinstance(n.func, ast.Attribute) and n.func.attr in CONSUMERS:
                return True
            if isinstance(n, ast.Call) and isinstance(n.func, ast.Name) and any(
                    isinstance(a, ast.Name) and a.id == "lexer" for a in n.args):
                return True          # any parser function that is handed the lexer may move the cursor
    return False


def _lexer_bounds_env(model, lexer_cls):
    """Ingredients of the interval analysis (E5) of class Lexer: the cursor invariant, which methods may move the
    cursor, zero-argument predicates, and the lower bounds callers guarantee for integer parameters."""
    from ..intervals import Bounds, join_lo
    inv = {CURSOR: (("c", 0), ("len", TOKENS, 0))}
    writers = {m.name for m in lexer_cls.methods.values()
               if any(isinstance(t, ast.Attribute) and norm(t) == CURSOR and isinstance(t.ctx, ast.Store)
                      for t in ast.walk(m.node))}
    changed = True
    while changed:
        changed = False
        for m in lexer_cls.methods.values():
            if m.name in writers:
                continue
            for n in ast.walk(m.node):
                if isinstance(n, ast.Call) and isinstance(n.func, ast.Attribute) and norm(n.func.value) == "self" \
                        and n.func.attr in writers:
                    writers.add(m.name)
                    changed = True
                    break
    preds = {}
    for m in lexer_cls.methods.values():
        b = [x for x in m.node.body if not (isinstance(x, ast.Expr) and isinstance(x.value, ast.Constant))]
        if len(m.node.args.args) == 1 and len(b) == 1 and isinstance(b[0], ast.Return) and b[0].value is not None:
            preds[f"self.{m.name}()"] = b[0].value

    def resets(a):
        for n in ast.walk(a):
            if isinstance(n, ast.Call) and isinstance(n.func, ast.Attribute) and norm(n.func.value) == "self" \
                    and n.func.attr in writers:
                return {CURSOR}
        return set()

    def bounds(m, contracts):
        assume = dict(inv)
        for p, lo in contracts.get(m.name, {}).items():
            assume[p] = (lo, None)
        return Bounds(m.node, assume=assume, tracked={CURSOR}, preds=preds, resets=resets)

    # parameter contracts: greatest lower bound every call site guarantees (optimistic fixpoint, then re-checked)
    int_params = {}
    for m in lexer_cls.methods.values():
        ps = [a.arg for a in m.node.args.args[1:]]
        if m.name in ("__init__", "init"):
            continue
        int_params[m.name] = ps
    BOT = "bottom"
    contracts = {}
    for _ in range(4):
        new = {}
        for f in model.all_funcs(True):
            calls = [n for n in ast.walk(f.node) if isinstance(n, ast.Call) and isinstance(n.func, ast.Attribute)
                     and n.func.attr in int_params and (f.cls is not lexer_cls or norm(n.func.value) == "self")
                     and (f.cls is lexer_cls or "lexer" in norm(n.func.value).lower())]
            if not calls:
                continue
            b = None
            for c in calls:
                ps = int_params[c.func.attr]
                for k, a in enumerate(c.args[:len(ps)]):
                    if isinstance(a, ast.Constant) and isinstance(a.value, int) and not isinstance(a.value, bool):
                        lo = ("c", a.value)
                    elif isinstance(a, ast.Constant) or isinstance(a, (ast.JoinedStr, ast.List, ast.Tuple)):
                        continue
                    else:
                        if b is None:
                            b = bounds(f, contracts) if f.cls is lexer_cls else Bounds(f.node)
                        lo = None
                        for node in b.g.nodes:
                            na = node.ast if node.kind != "for" else node.ast.iter
                            if na is not None and any(x is c for x in ast.walk(na)) and node.id in b.state:
                                lo = b.ev(a, b.state[node.id])[0]
                        if lo is not None and lo[0] == "len":
                            lo = ("c", lo[2])          # len(S) + k >= k
                        elif lo is not None and lo[0] != "c":
                            lo = None
                    cur = new.setdefault(c.func.attr, {}).get(ps[k], BOT)
                    new[c.func.attr][ps[k]] = lo if cur == BOT else join_lo(cur, lo)
        new = {m: {p: lo for p, lo in d.items() if lo is not None and lo != BOT} for m, d in new.items()}
        if new == contracts:
            break
        contracts = new
    return bounds, contracts, writers


def cursor(ctx, model, cg, lexer_cls):
    from ..intervals import le, show
    # who may subscript a token list
    for f in model.all_funcs(True):
        for n in ast.walk(f.node):
            if isinstance(n, ast.Subscript) and norm(n.value).endswith("tokens"):
                ok = f.cls is lexer_cls
                ctx.check("C01.cursor", f, n, ok, "token array indexed outside class Lexer")
    bounds, contracts, writers = _lexer_bounds_env(model, lexer_cls)
    ctx.note("C01.cursor: parameter lower bounds guaranteed by every call site: " +
             "; ".join(f"{m}({', '.join(f'{p}>={lo[1]}' for p, lo in d.items())})" for m, d in sorted(contracts.items()) if d))
    # every token read is proven inside [0, len(tokens)) by the interval analysis under the cursor invariant
    n_subs = 0
    for m in lexer_cls.methods.values():
        if not any(isinstance(n, ast.Subscript) and norm(n.value) == TOKENS for n in ast.walk(m.node)):
            continue
        b = bounds(m, contracts)
        for node, sub in nodes_containing(b.g, lambda x: isinstance(x, ast.Subscript) and norm(x.value) == TOKENS):
            if isinstance(sub.slice, ast.Slice):
                continue
            st = b.at(node)
            lo, hi = b.ev(sub.slice, st)
            ok = lo is not None and le(("c", 0), lo) is True and hi is not None and \
                le(hi, ("len", TOKENS, -1)) is True
            n_subs += 1
            ctx.check("C01.cursor", m, sub, ok,
                      f"token read {norm(sub)} is not proven inside [0, len(tokens)) under the cursor invariant "
                      f"0 <= nextToken <= len(tokens) (derived range [{show(lo)}, {show(hi)}])")
    if n_subs < 4:
        ctx.broken("Lexer", f"only {n_subs} token-array reads found")
    # writers of the cursor keep the invariant (an increment by a parameter is settled at the call sites below)
    delegated = set()
    for f in model.all_funcs(True):
        wr = [n for n in ast.walk(f.node) if isinstance(n, (ast.Assign, ast.AugAssign)) and any(
            isinstance(t, ast.Attribute) and t.attr == "nextToken"
            for t in (n.targets if isinstance(n, ast.Assign) else [n.target]))]
        if not wr:
            continue
        if f.cls is not lexer_cls:
            for n in wr:
                ctx.check("C01.cursor", f, n, False, "token cursor written outside class Lexer")
            continue
        b = bounds(f, contracts)
        params = {a.arg for a in f.node.args.args[1:]}
        for n in wr:
            node = next((x for x in b.g.nodes if x.ast is n), None)
            if node is None or node.id not in b.state:
                ctx.check("C01.cursor", f, n, False, f"unexpected write to the token cursor: {norm(n)}")
                continue
            after = b._transfer(node, "next", b.state[node.id])
            lo, hi = after.get(CURSOR, (None, None))
            if f.name == "scan" and isinstance(n, ast.Assign) and norm(n.value) == "0":
                ctx.ob("C01.cursor", "Lexer.scan: cursor reset to 0", True)
                continue
            ok_lo = lo is not None and le(("c", 0), lo) is True
            ok_hi = hi is not None and le(hi, ("len", TOKENS, 0)) is True
            if ok_lo and not ok_hi and isinstance(n, ast.AugAssign) and isinstance(n.op, ast.Add) \
                    and isinstance(n.value, ast.Name) and n.value.id in params:
                delegated.add(f.name)
                ok_hi = True
            ctx.check("C01.cursor", f, n, ok_lo and ok_hi,
                      f"{norm(n)} does not keep 0 <= nextToken <= len(tokens) (cursor afterwards in "
                      f"[{show(lo)}, {show(hi)}])")
    # eat(n) callers pass proven counts
    for f in model.all_funcs(True):
        if not any(isinstance(n, ast.Call) and isinstance(n.func, ast.Attribute) and n.func.attr in delegated
                   for n in ast.walk(f.node)):
            continue
        g = CFG(f.node, implicit_exc=False)
        facts = must_facts(g, kills=_kills_cursor)
        for node, call in nodes_containing(
                g, lambda x: isinstance(x, ast.Call) and isinstance(x.func, ast.Attribute) and x.func.attr in delegated):
            recv = norm(call.func.value)
            have = facts.get(node.id, frozenset())
            arg = call.args[0] if call.args else None
            ok = False
            if isinstance(arg, ast.Constant) and arg.value == 1:
                for t, pol in have:
                    if pol and t.startswith(f"{recv}.peekn(1,"):
                        ok = True
                    if pol and f"{recv}.peek()" in t:
                        ok = True      # the test evaluated peek() successfully, so a token exists
            elif isinstance(arg, ast.Call) and norm(arg.func) == "len" and len(arg.args) == 1:
                ok = _lookahead_loops_dominate(g, node, recv, norm(arg.args[0]))
            ctx.check("C01.cursor", f, call, ok,
                      f"{norm(call)} is not preceded by a look-ahead success establishing that many tokens")
    # parse() tests hasNext() before anything else touches the lexer (getPos/getPosNext need a token)
    parse = model.func(P, "parser", "parse")
    first = parse.node.body[0]
    ok = isinstance(first, ast.If) and norm(first.test) == "not lexer.hasNext()" and \
        isinstance(first.body[-1], ast.Return)
    ctx.check("C01.cursor", parse, first, ok, "parse() no longer returns early on an empty token list "
              "(getPos/getPosNext recurse forever when there is no token)", expr="parse: empty-input guard")
    ps = model.func(P, "parser", "parse_script")
    ctx.check("C01.cursor", ps, ps.node, norm(ps.node.body[-1]) == "return parse(Lexer(script, filename).scan())",
              "parse_script is not `parse(Lexer(script, filename).scan())`", expr="parse_script body")


def _lookahead_loops_dominate(g, eat_node, recv, seq):
    """Every path to `eat(len(seq))` runs through a loop over all positions of seq whose body leaves the function
    unless recv.peekn(i + 1, ..) succeeded for that position."""
    good = set()
    for n in g.nodes:
        if n.kind != "for":
            continue
        f = n.ast
        it = norm(f.iter)
        if it == f"range(len({seq}))" and isinstance(f.target, ast.Name):
            idx = f.target.id
        elif it == f"enumerate({seq})" and isinstance(f.target, ast.Tuple) and isinstance(f.target.elts[0], ast.Name):
            idx = f.target.elts[0].id
        else:
            continue
        if f.orelse:
            continue
        # the body tests peekn(idx + 1, ..) unconditionally and returns when it fails
        ok = False
        for st in f.body:
            if isinstance(st, ast.If) and isinstance(st.test, ast.UnaryOp) and isinstance(st.test.op, ast.Not) \
                    and isinstance(st.test.operand, ast.Call) and norm(st.test.operand.func) == f"{recv}.peekn" \
                    and st.test.operand.args and norm(st.test.operand.args[0]) in (f"{idx} + 1", f"1 + {idx}") \
                    and st.body and isinstance(st.body[0], ast.Return):
                ok = True
                break
            if any(isinstance(x, (ast.Continue, ast.Break)) for x in ast.walk(st)):
                break
            if isinstance(st, ast.Assign) and any(isinstance(x, ast.Name) and x.id == idx for t in st.targets for x in ast.walk(t)):
                break
        if ok and not any(isinstance(x, (ast.Break,)) for x in ast.walk(f)):
            good.add(n.id)
    if not good:
        return False
    # reachability of the eat node from entry when the good loops' exits are removed
    seen, todo = set(), [g.entry]
    while todo:
        n = todo.pop()
        if n.id in seen:
            continue
        seen.add(n.id)
        for label, t in n.succ:
            if n.id in good and label != "iter":
                continue            # leaving a verified loop: every position was checked
            todo.append(t)
    # the eat node must NOT be reachable without leaving a verified loop through its exhausted edge
    return eat_node.id not in seen


# --------------------------------------------------------------------------------------------------
def progress_scan(ctx, lm):
    fn = lm.func
    edges = {}
    for s, leaves in sorted(lm.states.items()):
        for l in leaves:
            if l.raises:
                ctx.ob("C01.progress.scan", f"state {s} [{l.cond_text()[:50]}]: raises (leaves the loop)", True)
                continue
            if l.unread:
                t = lm.target(l)
                edges.setdefault(s, set()).add(t)
                ctx.ob("C01.progress.scan", f"state {s} [{l.cond_text()[:50]}]: unread edge {s}->{t}", True)
            else:
                ctx.ob("C01.progress.scan", f"state {s} [{l.cond_text()[:50]}]: consumes the character", True)
    # acyclicity of the unread graph
    color = {}

    def dfs(u, stack):
        color[u] = 1
        for v in sorted(edges.get(u, ())):
            if color.get(v) == 1:
                return stack + [u, v]
            if color.get(v) is None:
                r = dfs(v, stack + [u])
                if r:
                    return r
        color[u] = 2
        return None

    cyc = None
    for u in sorted(edges):
        if color.get(u) is None:
            cyc = dfs(u, [])
            if cyc:
                break
    ctx.check("C01.progress.scan", fn, None, cyc is None,
              f"scanner transitions that unread the current character form a cycle {cyc}: scan() can loop "
              f"forever on that character", expr="unread graph " + str(cyc if cyc else "acyclic"),
              site="unread-transition graph is acyclic: " + ", ".join(
                  f"{u}->{sorted(v)}" for u, v in sorted(edges.items())))
    # targets of transitions are dispatched states
    for s, leaves in lm.states.items():
        for l in leaves:
            t = lm.target(l)
            ctx.check("C01.progress.scan", fn, None, t in lm.states,
                      f"state {s} transfers to state {t}, which no branch handles (characters silently ignored)",
                      expr=f"state {s} -> {t}", site=f"state {s} -> {t} is a dispatched state")


def progress_parse(ctx, parser_mod):
    try:
        summary, viol, loops, rounds, unknown = parsemodel.analyse(parser_mod.tree)
    except RuntimeError as e:
        ctx.broken("parser.py", str(e))
    except (AttributeError, IndexError, TypeError, KeyError) as e:
        ctx.broken("parser.py", f"a parser construct is not understood by the loop-progress interpreter: {e!r}")
    if viol and unknown:
        ctx.broken("parser.py", f"loop progress cannot be decided: look-ahead token set not resolved in {unknown[:3]}")
    bad = {}
    for name, w, st in viol:
        bad.setdefault((name, w.lineno), (w, []))[1].append(st)
    for name, lineno, test in sorted(loops):
        ok = (name, lineno) not in bad
        ctx.ob("C01.progress.parse", f"{name}: while {test[:80]}", ok,
               "" if ok else "a path reaches the back edge without consuming a token")
    for (name, lineno), (w, sts) in bad.items():
        f = parser_mod.funcs[name]
        ctx.fail("C01.progress.parse", f, w.test,
                 f"loop `while {norm(w.test)[:80]}` has a path to its back edge that consumes no token while "
                 f"the loop condition can still hold (look-ahead state {sts[0]}): the parser does not terminate",
                 expr="while " + norm(w.test))
    ctx.note(f"parser summaries converged in {rounds} rounds: " +
             ", ".join(f"{k}>={v}" for k, v in sorted(summary.items())))


# --------------------------------------------------------------------------------------------------
CONVERSIONS = {"int": ("ValueError",), "float": ("ValueError",), "chr": ("ValueError", "OverflowError")}


def _enclosing_tries(fn_node, target):
    """Try statements whose body contains `target`, innermost first."""
    out = []

    def rec(node, stack):
        for ch in ast.iter_child_nodes(node):
            if ch is target:
                out.extend(reversed(stack))
                return True
            st = stack
            if isinstance(node, ast.Try) and ch in node.body:
                st = stack + [node]
            if rec(ch, st):
                return True
        return False

    rec(fn_node, [])
    return out


def _handler_converts(tries, exc_names, to="CklSyntaxError"):
    for t in tries:
        for h in t.handlers:
            names = []
            if h.type is None:
                names = ["*"]
            elif isinstance(h.type, ast.Tuple):
                names = [norm(x) for x in h.type.elts]
            else:
                names = [norm(h.type)]
            covers = "*" in names or "Exception" in names or all(
                any(n == e or n.endswith("." + e) for n in names) for e in exc_names)
            if covers:
                last = h.body[-1] if h.body else None
                if isinstance(last, ast.Raise) and last.exc is not None and to in norm(last.exc):
                    return True
                return False
    return False


def conv(ctx, model, cg, lm, reach):
    # scanner: conversions recorded per leaf with their guard status
    for s, leaves in sorted(lm.states.items()):
        for l in leaves:
            for text, guarded in l.conversions:
                ok = guarded
                ctx.check("C01.conv", lm.func, None, ok,
                          f"scanner state {s} converts with {text} outside a handler raising CklSyntaxError",
                          expr=f"state {s}: {text}", site=f"Lexer.scan state {s}: {text}")
    scan = lm.func
    for n in ast.walk(scan.node):
        if isinstance(n, ast.Try):
            for h in n.handlers:
                last = h.body[-1] if h.body else None
                ok = isinstance(last, ast.Raise) and last.exc is not None and "CklSyntaxError" in norm(last.exc)
                ctx.check("C01.conv", scan, h, ok, "scanner handler does not raise CklSyntaxError",
                          expr="except " + norm(h.type) if h.type else "except")
    # parser and the rest of the parse path
    for f in reach:
        if f is scan or f.module.name not in ("parser", "lexer", "nodes", "values", "errors"):
            continue
        for n in ast.walk(f.node):
            if not isinstance(n, ast.Call):
                continue
            fname = norm(n.func)
            if fname in CONVERSIONS and n.args:
                if fname == "int" and len(n.args) == 1 and isinstance(n.args[0], ast.Constant):
                    continue
                tries = _enclosing_tries(f.node, n)
                guarded = _handler_converts(tries, CONVERSIONS[fname])
                total = False
                why = ""
                if not guarded and f.module.name == "parser" and norm(n.args[0]) == "token.value":
                    total, why = _token_alphabet_ok(f, n, fname, lm)
                if f.module.name == "values" and not guarded:
                    # value-class conversions are not on the parse path unless called with token text
                    continue
                ctx.check("C01.conv", f, n, guarded or total,
                          f"{norm(n)} can raise {'/'.join(CONVERSIONS[fname])} on the parse path: not inside a "
                          f"handler raising CklSyntaxError and {why or 'argument not a typed token value'}")
            if fname in ("ValuePattern", "re.compile") and f.module.name == "parser":
                tries = _enclosing_tries(f.node, n)
                ok = _handler_converts(tries, ("CklRuntimeError",)) or _handler_converts(tries, ("re.error",))
                ctx.check("C01.conv", f, n, ok,
                          f"{norm(n)} compiles program text while parsing without converting the failure to "
                          f"CklSyntaxError")
    # the pattern constructor itself converts regex failures into the language error the parser catches
    vp = model.method(P, "ValuePattern", "__init__")
    for n in ast.walk(vp.node):
        if isinstance(n, ast.Call) and norm(n.func) == "re.compile":
            tries = _enclosing_tries(vp.node, n)
            ok = _handler_converts(tries, ("re.error",), to="CklRuntimeError")
            ctx.check("C01.conv", vp, n, ok, "re.compile in ValuePattern.__init__ is not wrapped into CklRuntimeError")


def _token_alphabet_ok(f, call, fname, lm):
    """`int(token.value)` under `token.type == "T"`: characters the scanner can put into a T token."""
    # find the guarding type tag
    tag = None
    for n in ast.walk(f.node):
        if isinstance(n, ast.If) and any(call is x for b in n.body for x in ast.walk(b)):
            t = n.test
            if isinstance(t, ast.Compare) and norm(t.left) == "token.type" and isinstance(t.ops[0], ast.Eq) \
                    and isinstance(t.comparators[0], ast.Constant):
                tag = t.comparators[0].value
    if tag is None:
        return False, "no `token.type == ...` guard found"
    emit_states = [s for s, ls in lm.states.items() for l in ls for e in l.emits if e.type == tag]
    if not emit_states:
        return False, f"scanner emits no token of type {tag!r}"
    # value produced by a guarded str(int(..)) is decimal digits by construction
    alphabet = set()
    dot_edges = 0
    for s in set(emit_states):
        for l in lm.states[s]:
            for e in l.emits:
                if e.type != tag:
                    continue
                if e.value_text.startswith("str(int(") or any(norm(r).startswith("str(int(") for r in l.token_rewrites):
                    continue
                # chars that can be in the buffer: appended on edges staying inside the predecessor closure
                R = _pred_closure(lm, s)
                for u in R | {0}:
                    for ll in lm.states.get(u, []):
                        if lm.target(ll) not in R or ll.raises:
                            continue
                        for a in ll.appends:
                            if a[0] == "lit":
                                alphabet |= set(a[1])
                            elif a[0] == "ch":
                                chars = {c for c in lm.alphabet() | {lm.OTHER} if ll.matches(c) is not False}
                                alphabet |= chars
                                if "." in chars and lm.target(ll) != u:
                                    dot_edges += 1
                                elif "." in chars:
                                    dot_edges += 2
                            else:
                                return False, f"computed text appended in state {u}"
                strips = "replace('_', '')" in e.value_text or any("replace('_', '')" in norm(r) for r in l.token_rewrites)
                if strips:
                    alphabet.discard("_")
    digits = set("0123456789")
    if fname == "int":
        ok = alphabet <= digits
        return ok, f"token type {tag!r} may contain {sorted(alphabet - digits)}"
    if fname == "float":
        ok = alphabet <= digits | {"."} and dot_edges <= 1
        return ok, f"token type {tag!r} may contain {sorted(alphabet - digits - {'.'})} / several dots"
    return False, ""


def _pred_closure(lm, s):
    R = {s}
    changed = True
    while changed:
        changed = False
        for u, leaves in lm.states.items():
            if u == 0 or u in R:
                continue
            if any(lm.target(l) in R and not l.emits for l in leaves):
                R.add(u)
                changed = True
    return R


# --------------------------------------------------------------------------------------------------
def init(ctx, model, reach):
    """No self.X read before it is assigned in a constructor (nodes / values / lexer / errors)."""
    for c in model.classes.values():
        if c.module.name not in ("nodes", "values", "lexer", "errors"):
            continue
        f = c.methods.get("__init__")
        if f is None:
            continue
        inherited = set()
        for k in model.mro(c):
            inherited |= set(k.methods) | set(k.class_attrs)
        g = CFG(f.node, implicit_exc=False)

        def transfer(node, label, state):
            s = set(state)
            a = node.ast
            if node.kind in ("stmt", "return", "with") and a is not None:
                for n in ast.walk(a):
                    if isinstance(n, ast.Call) and "super().__init__" in norm(n.func):
                        s.add("*super*")
                for n in ast.walk(a):
                    tg = []
                    if isinstance(n, ast.Assign):
                        tg = n.targets
                    elif isinstance(n, (ast.AugAssign, ast.AnnAssign)):
                        tg = [n.target]
                    for t in tg:
                        if isinstance(t, ast.Attribute) and isinstance(t.value, ast.Name) and t.value.id == "self":
                            s.add(t.attr)
            return frozenset(s)

        st = g.dataflow(frozenset(), transfer, lambda a, b: a & b)
        base_attrs = set()
        for k in model.mro(c)[1:]:
            bi = k.methods.get("__init__")
            if bi:
                for n in ast.walk(bi.node):
                    if isinstance(n, ast.Attribute) and isinstance(n.ctx, ast.Store) and norm(n.value) == "self":
                        base_attrs.add(n.attr)
        reads = 0
        for node in g.nodes:
            a = node.ast
            if a is None or node.kind in ("def",):
                continue
            if node.kind == "for":
                a = node.ast.iter
            have = st.get(node.id, frozenset())
            stored_here = set()
            if isinstance(a, ast.Assign):
                val = a.value
            else:
                val = a
            for n in ast.walk(val):
                if isinstance(n, ast.Attribute) and isinstance(n.ctx, ast.Load) and isinstance(n.value, ast.Name) \
                        and n.value.id == "self":
                    reads += 1
                    ok = n.attr in have or n.attr in inherited or ("*super*" in have and n.attr in base_attrs)
                    ctx.check("C01.init", f, n, ok,
                              f"{c.name}.__init__ reads self.{n.attr} before assigning it (AttributeError while "
                              f"constructing the node)", expr=f"self.{n.attr} in {norm(a)[:80]}")
        if reads == 0:
            ctx.ob("C01.init", f"{c.name}.__init__: no self attribute is read", True)


def attr(ctx, model, parser_mod):
    """Every attribute / method used in lexer.py and parser.py on a receiver whose class set E4 knows must
    exist on each of those classes (e.g. `result.items` when `result` may be a comprehension node)."""
    from ..kinds import Engine
    from .common import attr_obligations
    engine = Engine(model)
    ctx.engine = engine
    n = 0
    for f in list(parser_mod.funcs.values()) + list(model.cls(P, "Lexer").methods.values()):
        n += attr_obligations(ctx, "C01.attr", engine, f)
    if n < 150:
        ctx.broken("C01.attr", f"only {n} typed attribute uses found in lexer/parser (kind inference broken?)")


# --------------------------------------------------------------------------------------------------
def raises(ctx, model, cg, reach):
    # literal the REPL keys its line continuation on
    repl = model.module(P, "repl")
    lit = None
    for n in ast.walk(repl.tree):
        if isinstance(n, ast.Call) and norm(n.func).endswith("msg.startswith") and n.args \
                and isinstance(n.args[0], ast.Constant):
            lit = n.args[0].value
    if not lit:
        ctx.broken("repl.py", "continuation test `e.msg.startswith(<literal>)` not found")
    callers = {}
    for f in reach:
        for r in cg.refs(f):
            for t in cg.targets(f, r, lambda m, c: m not in ("evaluate", "execute", "collectVars")):
                callers.setdefault(t, []).append((f, r))
    for f in sorted(reach, key=lambda x: (x.file, x.qual)):
        if f.module.name not in ("lexer", "parser", "nodes", "values", "errors"):
            continue
        if f.module.name == "values" and f.qual != "ValuePattern.__init__":
            continue
        for n in ast.walk(f.node):
            if not isinstance(n, ast.Raise):
                continue
            if n.exc is None:
                ctx.ob("C01.raise", f"{f.qual}: bare re-raise", True)
                continue
            e = n.exc
            ctors = _raised_ctors(model, f, e)
            if ctors is None:
                ctx.broken(f.qual, f"cannot tell what `raise {norm(e)[:60]}` raises")
            if ctors == []:
                ctx.ob("C01.raise", f"{f.qual}: re-raise of the caught exception", True)
                continue
            if ctors and all(norm(c.func) == "CklSyntaxError" for c in ctors):
                for c in ctors:
                    ok = len(c.args) == 2 and not (isinstance(c.args[1], ast.Constant) and c.args[1].value is None)
                    ctx.check("C01.raise", f, n, ok, "syntax error raised without a source position")
                    # end-of-input raises agree with the REPL
                    par = _parent_if(f.node, n)
                    if par is not None and "hasNext()" in norm(par.test) and norm(par.test).startswith("not "):
                        m = c.args[0] if c.args else None
                        ok2 = isinstance(m, ast.Constant) and isinstance(m.value, str) and m.value.startswith(lit)
                        ctx.check("C01.raise", f, n, ok2,
                                  f"end-of-input error message does not start with {lit!r}, which the REPL uses to "
                                  f"ask for a continuation line")
                continue
            if ctors and all(norm(c.func) == "CklRuntimeError" for c in ctors) and f.qual == "ValuePattern.__init__":
                # converted by the only parse-path caller (C01.conv checks the handler)
                ctx.ob("C01.raise", f"{f.qual}: CklRuntimeError converted by the parser's handler", True)
                continue
            ctx.check("C01.raise", f, n, False,
                      f"{norm(e)[:60]} raised on the parse path is not CklSyntaxError(msg, pos)")


from .common import raised_ctors as _raised_ctors  # noqa: E402


def _parent_if(fn_node, target):
    for n in ast.walk(fn_node):
        if isinstance(n, ast.If) and any(x is target for x in n.body):
            return n
    return None


PURE_HOST = {"len", "int", "float", "chr", "str", "isinstance", "range", "repr", "list", "dict", "set", "bool",
             "tuple", "sorted", "enumerate", "min", "max", "abs", "ord", "format", "classmethod", "ValueError",
             "OverflowError", "Exception", "re.compile", "re.error", "decimal.Decimal", "any", "all", "zip",
             "print", "super", "type", "hash", "sum", "iter", "next", "map", "filter", "reversed", "__name__"}


AMBIENT_PREFIXES = ("random.", "time.", "os.", "sys.", "locale.", "uuid.", "secrets.", "socket.", "subprocess.",
                    "shutil.", "pathlib.", "tempfile.", "getpass.", "platform.", "datetime.datetime.now",
                    "datetime.datetime.today", "datetime.datetime.utcnow", "datetime.date.today", "pkgutil.", "io.")
AMBIENT_NAMES = {"open", "input", "id", "globals", "locals", "vars", "exec", "eval", "compile", "__import__",
                 "breakpoint", "hash"}


def _ambient(target):
    """host names that read or change something outside the text being parsed (positive list: an unknown pure helper
    such as bytes.fromhex is not evidence of anything)"""
    return target in AMBIENT_NAMES or target.startswith(AMBIENT_PREFIXES)


def pure(ctx, model, cg, reach):
    for f in sorted(reach, key=lambda x: (x.file, x.qual)):
        if f.module.name not in ("lexer", "parser"):
            continue
        bad = []
        for r in cg.refs(f):
            if r.kind == "host" and _ambient(r.target):
                bad.append(r.target)
            if r.kind == "global" and not r.is_call:
                pass
        for n in ast.walk(f.node):
            if isinstance(n, (ast.Global, ast.Nonlocal)):
                bad.append("global " + ",".join(n.names))
        # module-level tables are only read
        for n in ast.walk(f.node):
            if isinstance(n, ast.Call) and isinstance(n.func, ast.Attribute) and isinstance(n.func.value, ast.Name) \
                    and n.func.value.id in f.module.globals_assigned \
                    and n.func.attr in ("append", "extend", "insert", "remove", "pop", "clear", "sort", "update", "add"):
                bad.append(f"mutates module-level {n.func.value.id}")
            if isinstance(n, (ast.Assign, ast.AugAssign, ast.Delete)):
                tg = n.targets if isinstance(n, (ast.Assign, ast.Delete)) else [n.target]
                for t in tg:
                    if isinstance(t, ast.Subscript) and isinstance(t.value, ast.Name) \
                            and t.value.id in f.module.globals_assigned and t.value.id not in _locals(f):
                        bad.append(f"stores into module-level {t.value.id}")
        ctx.ob("C01.pure", f"{f.qual}: no ambient state", not bad, ", ".join(bad))
        for b in bad:
            ctx.fail("C01.pure", f, None, f"parse path uses ambient state or an impure host call: {b}", expr=b)


def _locals(f):
    from ..callgraph import local_names
    return local_names(f.node)


def index(ctx, model, parser_mod, lexer_cls):
    """Constant indices ([0], [-1], ...) on the parse path need a dominating length test (IndexError otherwise)."""
    from . import C13

    class Proxy:
        """Routes C13's index/zero rule into this property's rule names."""
        def __init__(self, ctx):
            self._c = ctx

        def __getattr__(self, k):
            return getattr(self._c, k)

        def ob(self, rule, *a, **k):
            return self._c.ob(rule.replace("C13.", "C01."), *a, **k)

        def check(self, rule, *a, **k):
            return self._c.check(rule.replace("C13.", "C01."), *a, **k)

        def fail(self, rule, *a, **k):
            return self._c.fail(rule.replace("C13.", "C01."), *a, **k)

    engine = ctx.engine
    px = Proxy(ctx)
    n = 0
    for f in list(parser_mod.funcs.values()) + list(lexer_cls.methods.values()):
        ip = engine.interp(f)
        C13.zero_and_index(px, engine, f, ip)
        n += 1
    if ctx.counts.get("C01.index", 0) < 1:
        ctx.broken("C01.index", f"only {ctx.counts.get('C01.index', 0)} constant-index sites examined")
