"""C02 - Operators evaluate per the language definition; integer arithmetic is exact.

Decided statically:
  C02.chain     binding order or < and < not < comparison < additive < multiplicative < unary as the operand-
                callee chain of the recursive-descent functions, each level parsing its operands strictly one
                level down (left associativity: the accumulated node is the first argument inside a loop)
  C02.table     operator token -> native name; each comparison native uses the Python operator of its name;
                unary minus is literal folding or sub(0, x)
  C02.relchain  a comparison chain is the conjunction of adjacent pairs (lhs := rhs at the end of each step)
  C02.bool      and / or / not test every operand with isBoolean() before using it, short-circuit with the
                right constant, and evaluate operands only inside that loop
  C02.null      the numeric branches of add/sub/mul/div/mod are dominated by the NULL test
  C02.kind      int o int yields ValueInt, other numeric pairs ValueDecimal, decided by the operand kinds
                (never by the host type of the computed payload), the int branch first
  C02.exact     the int branches compute with exact integer operators only (no /, no math.*, no float())
  C02.negtwin   each `is not P` form is NodeNot of the `is P` form; C02.kindname: every kind name compared
                with type(x) is a name some value class reports
Not decided: decimal results, string/list overloads, that `/` truncates toward zero (only that no float is on
the path).
"""
import ast

from ..cfg import CFG
from ..core import norm
from ..facts import must_facts
from .common import tokens_tested, operator_natives

P = "C02"
EXPLANATION = __doc__
TECHNIQUE = "structural extraction of the precedence chain and operator tables; guard-dominance dataflow on " \
            "the arithmetic natives; twin comparison of the two predicate chains"
LEVEL_TEXT = (
    "Static analysis of the expression parser and the arithmetic/boolean evaluators: decides the precedence and "
    "associativity chain, the operator-to-native table, the desugaring of comparison chains, boolean strictness "
    "and short-circuit, NULL propagation, result kind by operand kind, exactness of the integer branches (no "
    "float on the path, Python ints being arbitrary precision) and the `is`/`is not` twin chains. These hold "
    "for every expression and every magnitude; numeric results of decimal arithmetic are not decided.")
LEVEL_NOTE = "Trusted: CPython ast; arbitrary-precision semantics of Python int for + - * // %."
ASSUMPTIONS = ["the expression grammar keeps the recursive-descent shape parse_or_expr ... parse_unary_expr "
               "(a table-driven rewrite would stop the analysis with exit 2)"]
FLOORS = {"C02.chain": 14, "C02.table": 18, "C02.bool": 9, "C02.null": 8, "C02.kind": 10, "C02.exact": 5,
          "C02.negtwin": 24, "C02.kindname": 28, "C02.relchain": 4}

CHAIN = [("parse_or_expr", "parse_and_expr", {"or"}),
         ("parse_and_expr", "parse_not_expr", {"and"}),
         ("parse_not_expr", "parse_rel_expr", {"not"}),
         ("parse_rel_expr", "parse_add_expr", {"==", "!=", "<>", "<", "<=", ">", ">=", "is"}),
         ("parse_add_expr", "parse_mul_expr", {"+", "-"}),
         ("parse_mul_expr", "parse_unary_expr", {"*", "/", "%"}),
         ("parse_unary_expr", "parse_pred_expr", {"+", "-"})]
NATIVE = {"+": "add", "-": "sub", "*": "mul", "/": "div", "%": "mod", "<": "less", "<=": "less_equals",
          ">": "greater", ">=": "greater_equals", "==": "equals", "is": "equals", "!=": "not_equals",
          "<>": "not_equals", "is not": "not_equals"}
CMP_CLASS = {"FuncLess": ast.Lt, "FuncLessEquals": ast.LtE, "FuncGreater": ast.Gt, "FuncGreaterEquals": ast.GtE,
             "FuncEquals": ast.Eq, "FuncNotEquals": ast.NotEq}
ARITH = ["FuncAdd", "FuncSub", "FuncMul", "FuncDiv", "FuncMod"]


def run(ctx):
    model = ctx.model
    parser = model.module(P, "parser")
    chain(ctx, model, parser)
    table(ctx, model, parser)
    relchain(ctx, model)
    boolean(ctx, model)
    from .common import numeric_order_not_textual
    numeric_order_not_textual(ctx, model, P, "C02.kind")
    arithmetic(ctx, model)
    negtwin(ctx, model)


def chain(ctx, model, parser):
    level_names = {c[0] for c in CHAIN} | {"parse_pred_expr"}
    for name, operand, toks in CHAIN:
        f = model.func(P, "parser", name)
        callees = set()
        for n in ast.walk(f.node):
            if isinstance(n, ast.Call) and isinstance(n.func, ast.Name) and n.func.id in level_names | {
                    "parse_expression", "parse_primary_expr"}:
                callees.add(n.func.id)
        ctx.check("C02.chain", f, None, callees == {operand},
                  f"{name} parses its operands with {sorted(callees)}, expected exactly {{{operand}}}: "
                  f"precedence or associativity of {sorted(toks)} changes", expr=f"{name} -> {sorted(callees)}",
                  site=f"{name}: operands parsed by {operand}")
        tested = tokens_tested(model, f)
        if not tested:
            ctx.broken(name, "no operator tokens could be extracted from this precedence level")
        ops = {t for t in tested if t in {"or", "and", "not", "==", "!=", "<>", "<", "<=", ">", ">=", "is",
                                          "+", "-", "*", "/", "%"}}
        if name == "parse_rel_expr":
            ops = ops - {"not"}          # the second word of `is not`, looked for only after `is`
        ctx.check("C02.chain", f, None, ops == toks,
                  f"{name} tests operator tokens {sorted(ops)}, expected {sorted(toks)}",
                  expr=f"{name} tokens {sorted(ops)}", site=f"{name}: operator tokens {sorted(toks)}")
    # left associativity in the two loops
    for name in ("parse_add_expr", "parse_mul_expr"):
        f = model.func(P, "parser", name)
        loops = [n for n in f.node.body if isinstance(n, ast.While)]
        ok = len(loops) == 1
        n_calls = 0
        if ok:
            for n in ast.walk(loops[0]):
                if isinstance(n, ast.Assign) and isinstance(n.value, ast.Call) and norm(n.value.func) == "func_call":
                    n_calls += 1
                    a = n.value.args
                    operand_ok = len(a) == 4 and (isinstance(a[2], ast.Call) or (
                        isinstance(a[2], ast.Name) and all(
                            isinstance(d.value, ast.Call) for d in ast.walk(loops[0])
                            if isinstance(d, ast.Assign) and norm(d.targets[0]) == a[2].id)))
                    if not (norm(n.targets[0]) == "expr" and len(a) == 4 and norm(a[1]) == "expr" and operand_ok):
                        ok = False
            ok = ok and n_calls >= 1
        ctx.check("C02.chain", f, None, ok,
                  f"{name}: the loop does not fold left (`expr = func_call(op, expr, <operand>, pos)`)",
                  expr=f"{name} left fold", site=f"{name}: left-associative fold")
    # entry point: parse_expression falls through to parse_or_expr
    pe = model.func(P, "parser", "parse_expression")
    ctx.check("C02.chain", pe, None, any(isinstance(r, ast.Return) and r.value is not None
                                            and norm(r.value) == "parse_or_expr(lexer)" for r in ast.walk(pe.node)),
              "parse_expression does not end in parse_or_expr", expr="parse_expression tail",
              site="parse_expression -> parse_or_expr")


def table(ctx, model, parser):
    got = {}
    rel = model.func(P, "parser", "parse_rel_expr")
    for name in ("parse_add_expr", "parse_mul_expr", "parse_rel_expr"):
        t = operator_natives(model, model.func(P, "parser", name))
        if not t:
            ctx.broken(name, "the operator loop of this precedence level is not understood (no token -> native "
                             "pair could be extracted)")
        got.update(t)
    for tok, nat in sorted(NATIVE.items()):
        ctx.check("C02.table", rel if tok in ("<", "is") else "parser", None, got.get(tok) == nat,
                  f"operator {tok!r} is parsed to native {got.get(tok)!r}, expected {nat!r}",
                  expr=f"{tok} -> {got.get(tok)}", site=f"operator {tok!r} -> {nat}")
    # `is not` is recognised as relop 'is' followed by 'not'
    ok = any(isinstance(n, ast.If) and "relop == 'is'" in norm(n.test) and "'not'" in norm(n.test)
             and any(norm(s) == "relop = 'is not'" for s in n.body) for n in ast.walk(rel.node))
    ctx.check("C02.table", rel, None, ok, "`is not` is no longer folded into one relational operator",
              expr="is not folding", site="parse_rel_expr: 'is' + 'not' -> 'is not'")
    # natives: the Python operator matches the name
    for cname, op in sorted(CMP_CLASS.items()):
        m = model.method(P, cname, "execute")
        cmps = [n for n in ast.walk(m.node) if isinstance(n, ast.Compare)]
        ok = len(cmps) == 1 and isinstance(cmps[0].ops[0], op) and norm(cmps[0].left) == "a" \
            and norm(cmps[0].comparators[0]) == "b"
        binds = {norm(n.targets[0]): norm(n.value) for n in ast.walk(m.node) if isinstance(n, ast.Assign)}
        ok = ok and binds.get("a") == "args.get('a')" and binds.get("b") == "args.get('b')"
        ctx.check("C02.table", m, None, ok, f"{cname} does not compute `a {op.__name__} b` on its two arguments",
                  expr=f"{cname} operator", site=f"{cname}: a {op.__name__} b")
    # unary minus / plus
    un = model.func(P, "parser", "parse_unary_expr")
    txt = norm(un.node)
    ok = "call.addArg('a', NodeLiteral(ValueInt(0), pos))" in txt and "call.addArg('b', parse_pred_expr(lexer))" in txt \
        and "NodeFuncall(NodeIdentifier('sub', pos), pos)" in txt
    ctx.check("C02.table", un, None, ok, "unary minus is not sub(0, x)", expr="unary minus",
              site="parse_unary_expr: -x -> sub(0, x)")
    prim = model.func(P, "parser", "parse_primary_expr")
    ptxt = norm(prim.node)
    ok = "ValueInt(int(token.value) * (-1 if unary_minus else 1))" in ptxt and \
        "ValueDecimal(float(token.value) * (-1 if unary_minus else 1))" in ptxt
    ctx.check("C02.table", prim, None, ok, "negative literal folding changed", expr="literal folding",
              site="parse_primary_expr: -<literal> folds the sign into the literal")
    # native registration names match classes
    from .common import native_registry
    bn = model.func(P, "functions", "bind_native")
    reg = native_registry(model, P)
    if len(reg) < 60:
        ctx.broken("bind_native", f"only {len(reg)} native registrations could be extracted")
    want = {"add": "FuncAdd", "sub": "FuncSub", "mul": "FuncMul", "div": "FuncDiv", "mod": "FuncMod",
            "less": "FuncLess", "less_equals": "FuncLessEquals", "greater": "FuncGreater",
            "greater_equals": "FuncGreaterEquals", "equals": "FuncEquals", "not_equals": "FuncNotEquals"}
    for k, v in sorted(want.items()):
        ctx.check("C02.table", bn, None, reg.get(k) == v, f"native {k!r} is bound to {reg.get(k)}, expected {v}",
                  expr=f"bind {k}", site=f"bind_native: {k!r} -> {v}")


def relchain(ctx, model):
    rel = model.func(P, "parser", "parse_rel_expr")
    loops = [n for n in rel.node.body if isinstance(n, ast.While)]
    ok = len(loops) == 1
    ctx.check("C02.relchain", rel, None, ok, "parse_rel_expr no longer has one comparison loop",
              expr="rel loop", site="parse_rel_expr: one loop")
    if not ok:
        return
    body = loops[0].body
    last = norm(body[-1])
    ctx.check("C02.relchain", rel, body[-1], last == "lhs = rhs",
              "the comparison loop does not end with `lhs = rhs`: a < b < c would compare a with c",
              site="parse_rel_expr: lhs := rhs at the end of each step")
    ok = any(norm(s) == "result.addAndClause(cmp)" for s in body)
    ctx.check("C02.relchain", rel, None, ok, "comparison nodes are not collected as clauses of one NodeAnd",
              expr="addAndClause", site="parse_rel_expr: each pair is a clause of one NodeAnd")
    calls = [n for n in ast.walk(loops[0]) if isinstance(n, ast.Call) and norm(n.func) == "func_call"]
    ok = bool(calls) and all(len(c.args) == 4 and norm(c.args[1]) == "lhs" and norm(c.args[2]) == "rhs" for c in calls)
    ctx.check("C02.relchain", rel, None, ok, "a comparison is not built from (lhs, rhs) in that order",
              expr="func_call(op, lhs, rhs)", site="parse_rel_expr: func_call(op, lhs, rhs, pos)")
    txt = norm(rel.node)
    ok = "result = NodeAnd(None, lexer.getPosNext())" in txt and "return result.getSimplified()" in txt \
        and "rhs = parse_add_expr(lexer)" in txt
    ctx.check("C02.relchain", rel, None, ok, "chain container / simplification changed", expr="NodeAnd container",
              site="parse_rel_expr: NodeAnd(None, ..) ... getSimplified()")


def boolean(ctx, model):
    for cname, stop_on, stop_const, end_const in (("NodeAnd", False, "FALSE", "TRUE"), ("NodeOr", True, "TRUE", "FALSE")):
        m = model.method(P, cname, "evaluate")
        g = CFG(m.node, implicit_exc=False)
        facts = must_facts(g)
        fors = [n for n in m.node.body if isinstance(n, ast.For)]
        ok = len(fors) == 1 and norm(fors[0].iter) == "self.expressions"
        ctx.check("C02.bool", m, None, ok, f"{cname}.evaluate does not loop over its operand list once",
                  expr="operand loop", site=f"{cname}.evaluate: one loop over self.expressions")
        evals = [n for n in ast.walk(m.node) if isinstance(n, ast.Call) and isinstance(n.func, ast.Attribute)
                 and n.func.attr == "evaluate"]
        inside = ok and all(any(e is x for x in ast.walk(fors[0])) for e in evals) and len(evals) == 1
        ctx.check("C02.bool", m, None, inside, f"{cname}.evaluate evaluates an operand outside the short-circuit loop",
                  expr="evaluate calls", site=f"{cname}.evaluate: operands evaluated only inside the loop")
        # every use of value.value dominated by isBoolean
        for node in g.nodes:
            a = node.ast if node.kind != "for" else None
            if a is None:
                continue
            for x in ast.walk(a):
                if isinstance(x, ast.Attribute) and x.attr == "value" and norm(x.value) == "value":
                    have = facts.get(node.id, frozenset())
                    ctx.check("C02.bool", m, x, ("value.isBoolean()", True) in have,
                              f"{cname}.evaluate uses the operand's payload without a dominating isBoolean() test",
                              site=f"{cname}.evaluate: value.value guarded by isBoolean()")
        # the type test raises the language error
        raises = [n for n in ast.walk(m.node) if isinstance(n, ast.Raise)]
        ok = len(raises) == 1 and "CklRuntimeError" in norm(raises[0].exc)
        ctx.check("C02.bool", m, None, ok, f"{cname}.evaluate does not raise CklRuntimeError for non-booleans",
                  expr="type error", site=f"{cname}.evaluate: non-boolean operand raises CklRuntimeError")
        # short circuit
        rets = [n for n in ast.walk(fors[0]) if isinstance(n, ast.Return)] if fors else []
        ok = len(rets) == 1 and norm(rets[0].value) == stop_const
        if ok:
            par = [n for n in ast.walk(fors[0]) if isinstance(n, ast.If) and rets[0] in n.body]
            want = "value.value" if stop_on else "not value.value"
            ok = len(par) == 1 and norm(par[0].test) == want
        ctx.check("C02.bool", m, None, ok,
                  f"{cname}.evaluate does not short-circuit with {stop_const} on the first "
                  f"{'TRUE' if stop_on else 'FALSE'} operand", expr="short circuit",
                  site=f"{cname}.evaluate: early return {stop_const}")
        ok = norm(m.node.body[-1]) == f"return {end_const}"
        ctx.check("C02.bool", m, None, ok, f"{cname}.evaluate does not end with {end_const}", expr="identity",
                  site=f"{cname}.evaluate: falls through to {end_const}")
    m = model.method(P, "NodeNot", "evaluate")
    g = CFG(m.node, implicit_exc=False)
    facts = must_facts(g)
    for node in g.nodes:
        if node.ast is None:
            continue
        for x in ast.walk(node.ast):
            if isinstance(x, ast.Attribute) and x.attr == "value" and norm(x.value) == "value":
                ctx.check("C02.bool", m, x, ("value.isBoolean()", True) in facts.get(node.id, frozenset()),
                          "NodeNot.evaluate uses the operand's payload without a dominating isBoolean() test",
                          site="NodeNot.evaluate: value.value guarded by isBoolean()")
    from .common import decision_list
    dl_ = decision_list(m.node) or []
    outs = set()
    for facts_, ret in dl_:
        if isinstance(ret, ast.IfExp) and norm(ret.test) == "value.value":
            outs.add(("T", norm(ret.body)))
            outs.add(("F", norm(ret.orelse)))
        elif ("value.value", True) in facts_:
            outs.add(("T", norm(ret)))
        elif ("value.value", False) in facts_:
            outs.add(("F", norm(ret)))
        else:
            outs.add(("?", norm(ret)))
    ok = outs == {("T", "FALSE"), ("F", "TRUE")}
    ctx.check("C02.bool", m, None, ok, "NodeNot.evaluate does not return the negation", expr="negation",
              site="NodeNot.evaluate: FALSE if value.value else TRUE")


def _has(have, *facts):
    return all(f in have for f in facts)


def arithmetic(ctx, model):
    INT2 = (("a.isInt()", True), ("b.isInt()", True))
    NUM2 = (("a.isNumerical()", True), ("b.isNumerical()", True))
    NONNULL = (("a.isNull()", False), ("b.isNull()", False))
    for cname in ARITH:
        m = model.method(P, cname, "execute")
        binds = {norm(n.targets[0]): norm(n.value) for n in m.node.body if isinstance(n, ast.Assign)}
        if binds.get("a") != "args.get('a')" or binds.get("b") != "args.get('b')":
            ctx.broken(f"{cname}.execute", "operands are not bound as a = args.get('a'); b = args.get('b')")
        g = CFG(m.node, implicit_exc=False)
        facts = must_facts(g)
        n_int = n_num = 0
        for node in g.nodes:
            have = facts.get(node.id, frozenset())
            if node.kind != "return" or node.ast.value is None:
                # exactness: any statement executed under the int/int facts
                if node.ast is not None and _has(have, *INT2) and node.kind in ("stmt", "test"):
                    _exact(ctx, m, cname, node.ast)
                continue
            val = node.ast.value
            if _has(have, *INT2):
                n_int += 1
                _exact(ctx, m, cname, val)
                ok = _returns_kind(ctx, model, m, val, "ValueInt")
                ctx.check("C02.kind", m, val, ok, f"{cname}: int o int does not return ValueInt(...)",
                          site=f"{cname}.execute: int o int -> ValueInt")
                ctx.check("C02.null", m, val, _has(have, *NONNULL),
                          f"{cname}: the integer branch is not dominated by the NULL test",
                          site=f"{cname}.execute: int branch after the NULL test")
            elif _has(have, *NUM2):
                n_num += 1
                ok = _returns_kind(ctx, model, m, val, "ValueDecimal")
                ctx.check("C02.kind", m, val, ok,
                          f"{cname}: a numeric pair that is not int/int does not return ValueDecimal(...) - the "
                          f"result kind must follow the operand kinds, not the host type of the payload",
                          site=f"{cname}.execute: numeric pair -> ValueDecimal")
                before_int = ("a.isInt() and b.isInt()", False) in have
                ctx.check("C02.kind", m, val, before_int,
                          f"{cname}: the decimal branch is reachable for int/int operands (int test must come first)",
                          site=f"{cname}.execute: decimal branch only after the int test failed")
                ctx.check("C02.null", m, val, _has(have, *NONNULL),
                          f"{cname}: the decimal branch is not dominated by the NULL test",
                          site=f"{cname}.execute: decimal branch after the NULL test")
        if n_int == 0 or n_num == 0:
            ctx.check("C02.kind", m, None, False,
                      f"{cname}.execute has no return under int/int facts ({n_int}) or under numeric/numeric facts "
                      f"({n_num}): branches merged or guards changed", expr=f"{cname} branch structure")
        # NULL test returns NULL
        ok = False
        for n in ast.walk(m.node):
            if isinstance(n, ast.If) and norm(n.test) in ("a.isNull() or b.isNull()", "b.isNull() or a.isNull()"):
                ok = len(n.body) == 1 and norm(n.body[0]) == "return NULL"
        ctx.check("C02.null", m, None, ok, f"{cname}: `if a.isNull() or b.isNull(): return NULL` not found",
                  expr="NULL test", site=f"{cname}.execute: NULL operand -> NULL")


def _returns_kind(ctx, model, m, val, ctor, depth=0):
    """Is the returned expression a `ctor(..)` value (or the program-defined DIV_0_VALUE override)?  Locals with one
    assignment and statically named helpers are followed; what cannot be told stops the analysis."""
    from .common import resolve_static_call
    if "environment.get('DIV_0_VALUE'" in norm(val):
        return True
    if isinstance(val, ast.Call) and isinstance(val.func, ast.Name) and val.func.id.startswith("Value"):
        return val.func.id == ctor
    if isinstance(val, ast.Name):
        defs = [a.value for a in ast.walk(m.node) if isinstance(a, ast.Assign) and len(a.targets) == 1
                and norm(a.targets[0]) == val.id]
        if len(defs) == 1 and depth < 3:
            return _returns_kind(ctx, model, m, defs[0], ctor, depth + 1)
    if isinstance(val, ast.Call) and depth < 3:
        callee = resolve_static_call(model, m, val)
        if callee is not None:
            rets = [r for r in ast.walk(callee.node) if isinstance(r, ast.Return) and r.value is not None]
            if rets:
                return all(_returns_kind(ctx, model, callee, r.value, ctor, depth + 1) for r in rets)
            if any(isinstance(r, ast.Raise) for r in ast.walk(callee.node)):
                return True        # the helper only raises
    if isinstance(val, ast.IfExp):
        return _returns_kind(ctx, model, m, val.body, ctor, depth) and _returns_kind(ctx, model, m, val.orelse, ctor, depth)
    ctx.broken(m.qual, f"the kind of the returned expression `{norm(val)[:60]}` cannot be told")


def _exact(ctx, m, cname, node):
    for x in ast.walk(node):
        bad = None
        if isinstance(x, ast.BinOp) and isinstance(x.op, (ast.Div, ast.Pow)):
            bad = "true division / power"
        elif isinstance(x, ast.Call) and norm(x.func).startswith("math."):
            bad = norm(x.func)
        elif isinstance(x, ast.Call) and norm(x.func) in ("float", "round"):
            bad = norm(x.func) + "()"
        elif isinstance(x, ast.Constant) and isinstance(x.value, float):
            bad = "float constant"
        if bad:
            ctx.check("C02.exact", m, x, False,
                      f"{cname}: the int/int branch computes through {bad}: results lose exactness beyond 2^53")
            return
    ctx.ob("C02.exact", f"{cname}.execute int branch: {norm(node)[:70]}", True)


def negtwin(ctx, model):
    f = model.func(P, "parser", "parse_pred_expr")
    top = None
    for st in f.node.body:
        if isinstance(st, ast.If) and norm(st.test) == "lexer.matchIf('is', 'keyword')":
            top = st
    if top is None:
        ctx.broken("parse_pred_expr", "`if lexer.matchIf('is', 'keyword')` not found")
    first = top.body[0]
    if not (isinstance(first, ast.If) and norm(first.test) == "lexer.matchIf('not', 'keyword')"):
        ctx.broken("parse_pred_expr", "negated chain not found")

    tables = {}
    for name, v in f.module.globals_assigned.items():
        if isinstance(v, (ast.List, ast.Tuple)) and v.elts and all(
                isinstance(e, (ast.Tuple, ast.List)) and all(isinstance(x, ast.Constant) for x in e.elts)
                or isinstance(e, ast.Constant) for e in v.elts):
            tables[name] = v.elts

    class Subst(ast.NodeTransformer):
        def __init__(self, env):
            self.env = env

        def visit_Name(self, n):
            return ast.Constant(value=self.env[n.id]) if n.id in self.env else n

    def forms(stmts):
        """(test text, returned expression, node) for every `if <token test>: return <expr>` alternative of a
        statement list: elif chains, consecutive ifs, and loops over a module-level table (expanded per row)."""
        import copy
        out = []
        for i_, st in enumerate(stmts):
            if isinstance(st, ast.If) and isinstance(st.test, ast.UnaryOp) and isinstance(st.test.op, ast.Not) \
                    and not st.orelse and st.body and isinstance(st.body[-1], (ast.Return, ast.Raise)):
                # early exit written the other way round: `if not T: <fallback>` followed by the T alternative
                ret = [x for x in stmts[i_ + 1:] if isinstance(x, ast.Return)]
                out.append((norm(st.test.operand).replace("matchIf('in')", "matchIf('in', 'keyword')"),
                            ret[0].value if ret else None, st))
                break
            if isinstance(st, ast.If):
                node = st
                while True:
                    ret = [x for x in node.body if isinstance(x, ast.Return)]
                    out.append((norm(node.test).replace("matchIf('in')", "matchIf('in', 'keyword')"),
                                ret[0].value if ret else None, node))
                    if len(node.orelse) == 1 and isinstance(node.orelse[0], ast.If):
                        node = node.orelse[0]
                    else:
                        out += forms(node.orelse)
                        break
            elif isinstance(st, ast.For) and isinstance(st.iter, ast.Name) and st.iter.id in tables:
                for row in tables[st.iter.id]:
                    if isinstance(st.target, ast.Name):
                        env = {st.target.id: row.value} if isinstance(row, ast.Constant) else None
                    else:
                        names = [x.id for x in st.target.elts if isinstance(x, ast.Name)]
                        env = dict(zip(names, [x.value for x in row.elts])) if not isinstance(row, ast.Constant) else None
                    if env is None:
                        ctx.broken("parse_pred_expr", f"loop over {st.iter.id} not understood")
                    body = [ast.fix_missing_locations(Subst(env).visit(copy.deepcopy(x))) for x in st.body]
                    for t, v, node in forms(body):
                        out.append((t, v, st))
        return out

    neg = forms(first.body)
    pos = forms(first.orelse) + forms(top.body[1:])
    if len(neg) < 20 or len(pos) < 20:
        ctx.broken("parse_pred_expr", f"predicate chains too short ({len(neg)}, {len(pos)})")
    posd = {}
    for t, v, n in pos:
        posd.setdefault(t, (v, n))          # the first alternative with a given test wins at run time
    negd = {}
    for t, v, n in neg:
        negd.setdefault(t, (v, n))
    ctx.check("C02.negtwin", f, None, set(negd) == set(posd),
              f"the `is not` and `is` chains do not test the same forms: only negated "
              f"{sorted(set(negd) - set(posd))[:3]}, only positive {sorted(set(posd) - set(negd))[:3]}",
              expr="chain lengths", site="is / is not chains test the same forms")
    for i, (tn, (vn, nn)) in enumerate(negd.items()):
        if tn not in posd:
            continue
        vp = posd[tn][0]
        ok = isinstance(vn, ast.Call) and norm(vn.func) == "NodeNot" and len(vn.args) == 2 \
            and vp is not None and norm(vn.args[0]) == norm(vp)
        ctx.check("C02.negtwin", f, nn if isinstance(nn, ast.For) else nn.test, ok,
                  f"`is not` form ({tn[:60]}) is not NodeNot of the `is` form with the same test",
                  expr=f"negtwin {tn[:70]}", site=f"form: {tn[14:60]}")
    # kind names
    kinds = set()
    for c in model.subclasses("Value"):
        t = c.methods.get("type")
        if t is not None:
            r = t.node.body[-1]
            if isinstance(r, ast.Return) and isinstance(r.value, ast.Constant):
                kinds.add(r.value.value)
    if len(kinds) < 15:
        ctx.broken("Value.type()", f"only {len(kinds)} kind names extracted")
    for chain_ in (neg, pos):
        for t, v, node in chain_:
            if v is None:
                continue
            for c in ast.walk(v):
                if isinstance(c, ast.Call) and norm(c.func) == "func_call" and len(c.args) >= 3 \
                        and isinstance(c.args[0], ast.Constant) and c.args[0].value == "equals" \
                        and "func_call('type'" in norm(c.args[1]):
                    lit = c.args[2]
                    name = None
                    for x in ast.walk(lit):
                        if isinstance(x, ast.Constant) and isinstance(x.value, str):
                            name = x.value
                    ctx.check("C02.kindname", f, c, name in kinds,
                              f"type(x) is compared with {name!r}, which no value class reports as its type",
                              site=f"{t[14:50]}: type(x) == {name!r}")
