"""C03 - Names resolve lexically and calls bind arguments as declared.

Decided statically (def-use / who-calls-what on the evaluators involved):
  C03.capture  a function value stores the environment it was created in; its body AND its default
               expressions are evaluated in one fresh child of that stored environment, created inside the
               call - never in the caller's environment and never in the stored environment itself
  C03.defset   `def` (and class / destructuring def) writes the current frame with put; assignment (plain and
               destructuring) only updates an existing binding with set, after an isDefined test whose failing
               edge raises; Environment.put stores into its own map only; Environment.set stores only where
               the name already exists, otherwise delegates to the parent or raises
  C03.pipe     `x !> f(a)`: the piped node is the first argument added to the call, before the argument loop
  C03.method   `obj->m(a)`: the object prepended to the arguments is the evaluated receiver itself (not the
               prototype the member was found on), except for modules; member lookup walks `_proto_`
               in all three places with the same member name
  C03.byref    values are bound by reference: what def / assignment / parameter binding store is the very
               object evaluation produced (no copy, conversion or slice in between)
  C03.spread   spread arguments are expanded in place, in argument order
Not decided: the positional / named / rest matching arithmetic in Args.setArgs (value-level).
"""
import ast

from ..cfg import CFG
from ..core import norm
from ..facts import must_facts

P = "C03"
EXPLANATION = __doc__
TECHNIQUE = "def-use and who-may-call analysis on the scope evaluators (environment flow into evaluate/put/set)"
LEVEL_TEXT = (
    "Static data-flow analysis of the closure, definition, assignment and call evaluators: decides which "
    "environment object every body/default evaluation and every binding goes to, so lexical (not dynamic) "
    "scoping, fresh frames per call, def-vs-assign semantics, pipeline and method-call argument placement and "
    "by-reference binding hold for every program shape. The argument-matching arithmetic of setArgs is not "
    "decided.")
LEVEL_NOTE = "Trusted: CPython ast; Environment keeps put/set/get/newEnv as its whole interface (C09.flag.map checks that)."
ASSUMPTIONS = []
FLOORS = {"C03.literal": 40, "C03.capture": 6, "C03.defset": 12, "C03.pipe": 2, "C03.method": 5, "C03.byref": 5, "C03.spread": 2}


def _calls(node, attr):
    return [n for n in ast.walk(node) if isinstance(n, ast.Call) and isinstance(n.func, ast.Attribute)
            and n.func.attr == attr]


def _frame_walk(m, sym, own, parent, must_raise, forbidden=None):
    """Nearest-frame-first lookup shape, by guard dominance: every use of the own map (`own`) is dominated by
    `sym in self.map`; every delegation (`parent`) by `sym not in self.map` and `self.parent`; when must_raise, a
    raise is dominated by both being false; both kinds of site exist."""
    g = CFG(m.node, implicit_exc=False)
    facts = must_facts(g)
    n_own = n_par = n_raise = 0
    for node in g.nodes:
        a = node.ast
        if a is None or node.kind == "for":
            continue
        have = facts.get(node.id, frozenset())
        inmap = (f"{sym} in self.map", True) in have or (f"{sym} not in self.map", False) in have
        notin = (f"{sym} in self.map", False) in have or (f"{sym} not in self.map", True) in have
        haspar = ("self.parent", True) in have or ("self.parent is not None", True) in have or \
            ("self.parent is None", False) in have
        nopar = ("self.parent", False) in have or ("self.parent is not None", False) in have or \
            ("self.parent is None", True) in have
        for x in [a] + list(ast.walk(a)):
            if forbidden is not None and forbidden(x):
                return False, f"unexpected write {norm(x)[:50]}"
            if own(x):
                if not inmap:
                    return False, f"`{norm(x)[:50]}` is not dominated by `{sym} in self.map`"
                n_own += 1
                break
        for x in ast.walk(a):
            if parent(x):
                if not (notin and haspar):
                    return False, f"`{norm(x)[:50]}` is not dominated by `{sym} not in self.map` and `self.parent`"
                n_par += 1
        if isinstance(a, ast.Raise) and notin and nopar:
            n_raise += 1
    if not n_own:
        return False, "own map never consulted"
    if not n_par:
        return False, "parent never consulted"
    if must_raise and not n_raise:
        return False, "no error when the name is in no frame"
    return True, ""


def literal_nodes(ctx, model):
    """A literal node hands out the SAME value object at every evaluation.  That is right for values that cannot
    change (strings, numbers, booleans, patterns); a list, set, map or object wrapped at parse time would be one
    container shared by every evaluation - every call that omits a defaulted parameter, every iteration."""
    parser = model.module(P, "parser")
    MUTABLE = {"ValueList", "ValueSet", "ValueMap", "ValueObject"}
    n = 0
    for f in parser.all_funcs():
        made = {}
        for a in ast.walk(f.node):
            if isinstance(a, ast.Assign) and len(a.targets) == 1 and isinstance(a.targets[0], ast.Name) \
                    and isinstance(a.value, ast.Call):
                made.setdefault(a.targets[0].id, []).append(a.value)
        for c in ast.walk(f.node):
            if not (isinstance(c, ast.Call) and isinstance(c.func, ast.Name) and c.func.id == "NodeLiteral" and c.args):
                continue
            n += 1
            arg = c.args[0]
            srcs = [arg] if not isinstance(arg, ast.Name) else made.get(arg.id, [])
            heads = set()
            for v in srcs:
                x = v
                # ValueList().addItem(..) and the like still yield the container
                while isinstance(x, ast.Call) and isinstance(x.func, ast.Attribute):
                    x = x.func.value
                if isinstance(x, ast.Call) and isinstance(x.func, ast.Name):
                    heads.add(x.func.id)
            bad = heads & MUTABLE
            ctx.check("C03.literal", f, c, not bad,
                      f"a {'/'.join(sorted(bad))} is wrapped in a literal node at parse time: NodeLiteral.evaluate returns "
                      f"the same object every time, so every evaluation (each call that omits the default, each "
                      f"closure of the same fn) shares one container and sees the others' changes",
                      expr=f"NodeLiteral({norm(arg)[:30]})")
    if n < 10:
        ctx.broken("parser", f"only {n} NodeLiteral constructions found in the parser")
    lit = model.method(P, "NodeLiteral", "evaluate")
    rets = [r for r in ast.walk(lit.node) if isinstance(r, ast.Return)]
    if not (len(rets) == 1 and norm(rets[0].value) == "self.value"):
        ctx.broken("NodeLiteral.evaluate", "no longer `return self.value`: the sharing argument of C03.literal has to be "
                   "re-derived")
    ctx.ob("C03.literal", "NodeLiteral.evaluate returns the stored value (so only immutable values may be stored)", True)


def run(ctx):
    model = ctx.model
    literal_nodes(ctx, model)
    # ---------------------------------------------------------------- capture
    nl = model.method(P, "NodeLambda", "evaluate")
    envp = nl.params[1]
    ctor = [n for n in ast.walk(nl.node) if isinstance(n, ast.Call) and norm(n.func).endswith("FuncLambda")]
    ok = len(ctor) == 1 and len(ctor[0].args) == 1 and norm(ctor[0].args[0]) == envp
    ctx.check("C03.capture", nl, None, ok,
              "the function value is not created with the environment in which the `fn` expression is evaluated",
              expr="FuncLambda(environment)", site="NodeLambda.evaluate: FuncLambda(<creating environment>)")
    fl = model.cls(P, "FuncLambda")
    init = fl.methods["__init__"]
    p0 = init.params[1] if len(init.params) > 1 else None
    stored = [norm(n.targets[0])[5:] for n in init.node.body if isinstance(n, ast.Assign)
              and norm(n.value) == p0 and norm(n.targets[0]).startswith("self.")]
    ctx.check("C03.capture", init, None, len(stored) == 1,
              "FuncLambda.__init__ does not store its environment argument", expr="store lexical env",
              site="FuncLambda.__init__: stores the creating environment")
    if len(stored) != 1:
        return
    field = stored[0]
    ex = fl.methods["execute"]
    callenv = ex.params[2] if len(ex.params) > 2 else "environment"
    stored_alias = {f"self.{field}"} | {n.targets[0].id for n in ast.walk(ex.node) if isinstance(n, ast.Assign)
                                       and isinstance(n.targets[0], ast.Name) and norm(n.value) == f"self.{field}"}
    fresh = [n.targets[0].id for n in ast.walk(ex.node) if isinstance(n, ast.Assign)
             and isinstance(n.targets[0], ast.Name) and isinstance(n.value, ast.Call)
             and isinstance(n.value.func, ast.Attribute) and n.value.func.attr == "newEnv"
             and norm(n.value.func.value) in stored_alias]
    ctx.check("C03.capture", ex, None, len(fresh) == 1,
              f"a call does not create exactly one fresh child of the stored environment (found {fresh})",
              expr="fresh frame", site="FuncLambda.execute: env = self.<lexical env>.newEnv() once per call")
    env = fresh[0] if fresh else None
    frame = env
    for c in _calls(ex.node, "evaluate"):
        a = norm(c.args[0]) if c.args else ""
        ctx.check("C03.capture", ex, c, a == env,
                  f"`{norm(c)[:70]}` runs in `{a}` instead of the call's fresh frame `{env}`: "
                  f"{'dynamic scoping (caller variables visible)' if a == callenv else 'defaults/body do not see the parameters bound for this call'}",
                  site=f"FuncLambda.execute: {norm(c.func)[:40]}(<fresh frame>)")
    for c in _calls(ex.node, "put"):
        ctx.check("C03.capture", ex, c, norm(c.func.value) == env,
                  f"parameter bound in `{norm(c.func.value)}` instead of the fresh frame",
                  site="FuncLambda.execute: parameters bound in the fresh frame")
    uses_caller = [n for n in ast.walk(ex.node) if isinstance(n, ast.Name) and n.id == callenv]
    ctx.check("C03.capture", ex, uses_caller[0] if uses_caller else None, not uses_caller,
              "FuncLambda.execute uses the caller's environment", expr="caller environment unused",
              site="FuncLambda.execute: caller's environment is not used")
    writes = [n for n in ast.walk(ex.node) if isinstance(n, ast.Attribute) and isinstance(n.ctx, ast.Store)
              and norm(n.value) == "self"]
    ctx.check("C03.capture", ex, writes[0] if writes else None, not writes,
              "FuncLambda.execute keeps per-call state on the function value (frames shared between calls)",
              expr="no state on the function value", site="FuncLambda.execute: nothing stored on self")
    ne = model.method(P, "Environment", "newEnv")
    ctx.check("C03.capture", ne, None, norm(ne.node.body[-1]) == "return Environment(self)",
              "newEnv does not create a child whose parent is this environment", expr="newEnv",
              site="Environment.newEnv: Environment(self)")

    # ---------------------------------------------------------------- def vs assign
    for cname, want, forbid in (("NodeDef", "put", "set"), ("NodeDefDestructuring", "put", "set"),
                                ("NodeClass", "put", "set"), ("NodeAssign", "set", "put"),
                                ("NodeAssignDestructuring", "set", "put")):
        m = model.method(P, cname, "evaluate")
        e = m.params[1]
        good = [c for c in _calls(m.node, want) if norm(c.func.value) == e]
        bad = [c for c in _calls(m.node, forbid) if norm(c.func.value) == e]
        ctx.check("C03.defset", m, bad[0] if bad else None, bool(good) and not bad,
                  f"{cname}.evaluate binds with environment.{forbid}(): "
                  f"{'a definition would overwrite an outer variable' if forbid == 'set' else 'an assignment would create a new local instead of updating the enclosing binding'}",
                  expr=f"{cname} uses {want}", site=f"{cname}.evaluate: environment.{want}(..) only")
    for cname in ("NodeAssign", "NodeAssignDestructuring"):
        m = model.method(P, cname, "evaluate")
        e = m.params[1]
        g = CFG(m.node, implicit_exc=False)
        facts = must_facts(g)
        for node in g.nodes:
            if node.ast is None or node.kind == "for":
                continue
            for c in ast.walk(node.ast):
                if isinstance(c, ast.Call) and isinstance(c.func, ast.Attribute) and c.func.attr == "set" \
                        and norm(c.func.value) == e:
                    name = norm(c.args[0])
                    have = facts.get(node.id, frozenset())
                    ok = (f"{e}.isDefined({name})", True) in have
                    ctx.check("C03.defset", m, c, ok,
                              f"{cname}: assignment is not dominated by an isDefined({name}) test",
                              site=f"{cname}.evaluate: set after isDefined")
        raises = [n for n in ast.walk(m.node) if isinstance(n, ast.If) and norm(n.test).startswith(f"not {e}.isDefined(")
                  and isinstance(n.body[0], ast.Raise)]
        ctx.check("C03.defset", m, None, bool(raises), f"{cname}: assigning an undefined variable does not raise",
                  expr="undefined raises", site=f"{cname}.evaluate: undefined variable raises")
    env = model.cls(P, "Environment")
    put, set_ = env.methods["put"], env.methods["set"]
    ok = [norm(s) for s in put.node.body] == [f"self.map[{put.params[1]}] = {put.params[2]}"]
    ctx.check("C03.defset", put, None, ok, "Environment.put does more than store into its own map",
              expr="put body", site="Environment.put: self.map[name] = value")
    name, val = set_.params[1], set_.params[2]
    ok, why = _frame_walk(set_, name,
                          own=lambda x: isinstance(x, ast.Assign) and norm(x.targets[0]) == f"self.map[{name}]"
                          and norm(x.value) == val,
                          parent=lambda x: isinstance(x, ast.Call) and norm(x.func) == "self.parent.set"
                          and [norm(a) for a in x.args] == [name, val], must_raise=True,
                          forbidden=lambda x: isinstance(x, (ast.Assign, ast.AugAssign)) and "self.map" in norm(
                              x.targets[0] if isinstance(x, ast.Assign) else x.target)
                          and not (isinstance(x, ast.Assign) and norm(x.targets[0]) == f"self.map[{name}]"))
    ctx.check("C03.defset", set_, None, ok,
              "Environment.set is not: store where the name exists, else delegate to the parent, else raise - "
              f"an assignment could create a binding or stop at the wrong frame ({why})", expr="set body",
              site="Environment.set: existing binding in the nearest frame, else parent, else error")
    get = env.methods["get"]
    sym = get.params[1]
    ok, why = _frame_walk(get, sym,
                          own=lambda x: isinstance(x, ast.Subscript) and norm(x) == f"self.map[{sym}]",
                          parent=lambda x: isinstance(x, ast.Call) and norm(x.func) == "self.parent.get"
                          and x.args and norm(x.args[0]) == sym, must_raise=True)
    ctx.check("C03.defset", get, None, ok,
              f"Environment.get does not look in its own map first and then in the parent ({why})",
              expr="get walk", site="Environment.get: nearest frame first, then parents")
    isd = env.methods["isDefined"]
    sym = isd.params[1]
    ok, why = _frame_walk(isd, sym,
                          own=lambda x: isinstance(x, ast.Return) and norm(x.value) == "True",
                          parent=lambda x: isinstance(x, ast.Call) and norm(x.func) == "self.parent.isDefined"
                          and x.args and norm(x.args[0]) == sym, must_raise=False)
    ctx.check("C03.defset", isd, None, ok, f"Environment.isDefined does not walk the parent chain ({why})",
              expr="isDefined walk", site="Environment.isDefined: walks the chain")

    # ---------------------------------------------------------------- pipeline
    # the pipeline parser: the parser function that consumes '!>' and adds its node parameter to a call it builds
    cands = [f_ for f_ in model.module(P, "parser").funcs.values() if len(f_.params) == 2 and any(
        isinstance(c_, ast.Call) and norm(c_.func) == "lexer.matchIf" and c_.args and norm(c_.args[0]) == "'!>'"
        for c_ in ast.walk(f_.node)) and any(
        isinstance(c_, ast.Call) and isinstance(c_.func, ast.Attribute) and c_.func.attr == "addArg" and len(c_.args) == 2
        and norm(c_.args[1]) == f_.params[1] for c_ in ast.walk(f_.node))]
    if len(cands) != 1:
        ctx.broken("parser.py", f"pipeline parser ('!>' ... addArg(None, <node>)) not found ({len(cands)} candidates)")
    inv = cands[0]
    piped = inv.params[1]
    g = CFG(inv.node, implicit_exc=False)

    def is_piped_add(x):
        return isinstance(x, ast.Call) and norm(x.func) == "call.addArg" and len(x.args) == 2 \
            and norm(x.args[0]) == "None" and norm(x.args[1]) == piped

    def is_other_add(x):
        if not isinstance(x, ast.Call) or is_piped_add(x):
            return False
        if norm(x.func) == "call.addArg":
            return True
        # a helper that receives the call node may add the explicit arguments
        return isinstance(x.func, ast.Name) and any(norm(a) == "call" for a in x.args)

    from ..pathcount import must_pass
    seen = must_pass(g, lambda node, label: "piped" if node.ast is not None and node.kind != "for" and any(
        is_piped_add(x) for x in ast.walk(node.ast)) else None)
    n_piped = sum(1 for n in ast.walk(inv.node) if is_piped_add(n))
    others = [(node, x) for node in g.nodes if node.ast is not None and node.kind != "for"
              for x in ast.walk(node.ast) if is_other_add(x)]
    ok = n_piped == 1 and bool(others) and all("piped" in seen.get(node.id, frozenset()) for node, x in others)
    ctx.check("C03.pipe", inv, None, ok,
              "the piped value is not added as the first argument before the explicit arguments: x !> f(a) would not "
              "mean f(x, a)", expr="pipeline first argument", site="_invoke: call.addArg(None, <piped node>) first")
    ok = "call = NodeFuncall(fn, lexer.getPos())" in norm(inv.node) and "node = call" in norm(inv.node)
    ctx.check("C03.pipe", inv, None, ok, "pipeline does not build a call of the function after `!>`",
              expr="pipeline call node", site="_invoke: NodeFuncall(fn, ..) replaces the node")

    # ---------------------------------------------------------------- method call
    di = model.method(P, "NodeDerefInvoke", "evaluate")
    t = norm(di.node)
    recv = None
    for n in di.node.body:
        if isinstance(n, ast.Assign) and norm(n.value) == f"self.objectExpr.evaluate({di.params[1]})":
            recv = norm(n.targets[0])
    ctx.check("C03.method", di, None, recv is not None, "receiver is not evaluated from objectExpr",
              expr="receiver", site="NodeDerefInvoke.evaluate: receiver = objectExpr.evaluate(env)")
    if recv:
        ok = f"args = [NodeLiteral({recv}, self.pos)] + self.args" in t and "names = [None] + self.names" in t
        ctx.check("C03.method", di, None, ok,
                  "the object passed as first argument of a method call is not the original receiver (e.g. the "
                  "prototype the member was found on)", expr="receiver first",
                  site="NodeDerefInvoke.evaluate: [receiver] + args")
        ok = f"if {recv}.isModule:" in t and "names = self.names" in t and "args = self.args" in t
        ctx.check("C03.method", di, None, ok, "module members are called with the module prepended",
                  expr="module call", site="NodeDerefInvoke.evaluate: no receiver for module members")
    walks = []
    for qual in (("NodeDeref", "evaluate"), ("NodeDerefInvoke", "evaluate"), ("ValueObject", "resolveItem")):
        m = model.method(P, *qual)
        protos = {n.value for n in ast.walk(m.node) if isinstance(n, ast.Constant) and isinstance(n.value, str)
                  and "proto" in n.value}
        loops = [n for n in ast.walk(m.node) if isinstance(n, ast.While) and "_proto_" in norm(n.test)]
        walks.append((m, protos, loops))
        ctx.check("C03.method", m, None, protos == {"_proto_"} and len(loops) == 1,
                  f"{m.qual}: member lookup does not walk the `_proto_` chain in a loop", expr=f"{m.qual} proto walk",
                  site=f"{m.qual}: walks _proto_")
    nd = model.method(P, "NodeDerefAssign", "evaluate")
    ctx.check("C03.method", nd, None, "_proto_" not in norm(nd.node),
              "member assignment walks the prototype chain: it would write into a shared prototype",
              expr="assign on the object itself", site="NodeDerefAssign.evaluate: writes the targeted object only")

    # ---------------------------------------------------------------- by reference
    def stored_evaluated(m, meth):
        """the value handed to environment.<meth>(self.identifier, v) is the object self.expression.evaluate(env)
        produced: written inline, or held in a local that is assigned exactly once, from that call"""
        e = m.params[1]
        want = f"self.expression.evaluate({e})"
        calls = [c for c in _calls(m.node, meth) if norm(c.func.value) == e and len(c.args) == 2
                 and norm(c.args[0]) == "self.identifier"]
        if not calls:
            return False
        for c in calls:
            v = c.args[1]
            if norm(v) == want:
                continue
            if isinstance(v, ast.Name):
                defs = [a for a in ast.walk(m.node) if isinstance(a, (ast.Assign, ast.AugAssign, ast.For))
                        and any(isinstance(x, ast.Name) and x.id == v.id and isinstance(x.ctx, ast.Store)
                                for x in ast.walk(a.targets[0] if isinstance(a, ast.Assign) else a.target))]
                if len(defs) == 1 and isinstance(defs[0], ast.Assign) and norm(defs[0].value) == want:
                    continue
            return False
        return True

    ndf = model.method(P, "NodeDef", "evaluate")
    ctx.check("C03.byref", ndf, None, stored_evaluated(ndf, "put"), "def does not store the evaluated object itself",
              expr="def by reference", site="NodeDef.evaluate: put(identifier, <evaluated value>)")
    na = model.method(P, "NodeAssign", "evaluate")
    ctx.check("C03.byref", na, None, stored_evaluated(na, "set"), "assignment does not store the evaluated object itself",
              expr="assign by reference", site="NodeAssign.evaluate: set(identifier, <evaluated value>)")
    ok = any(len(c.args) == 2 and norm(c.func.value) == frame
             and norm(c.args[1]) == f"{ex.params[1]}.get({norm(c.args[0])})" for c in _calls(ex.node, "put"))
    ctx.check("C03.byref", ex, None, ok, "parameters are not bound to the argument objects themselves",
              expr="parameter by reference", site="FuncLambda.execute: put(name, args.get(name))")
    sa = model.method(P, "Args", "setArgs")
    stores = [n for n in ast.walk(sa.node) if isinstance(n, ast.Assign) and norm(n.targets[0]).startswith("self.args[")]
    vals = sa.params[2]
    elem = {f"{vals}[i]", "rest"}
    for n in ast.walk(sa.node):
        if isinstance(n, ast.For):
            it = norm(n.iter)
            if it == vals and isinstance(n.target, ast.Name):
                elem.add(n.target.id)
            elif it == f"enumerate({vals})" and isinstance(n.target, ast.Tuple) and len(n.target.elts) == 2:
                elem.add(norm(n.target.elts[1]))
                elem.add(f"{vals}[{norm(n.target.elts[0])}]")
            elif it == f"range(len({vals}))" and isinstance(n.target, ast.Name):
                elem.add(f"{vals}[{n.target.id}]")
    ok = bool(stores) and all(norm(st.value) in elem for st in stores)
    ctx.check("C03.byref", sa, None, ok, "Args.setArgs stores something else than the argument objects",
              expr="setArgs stores", site="Args.setArgs: args[name] = values[i]")
    iv = model.func(P, "nodes", "invoke")
    t = norm(iv.node)
    # the evaluated argument object itself is what is appended: <values>.append(<loop element>.evaluate(<env>)), the
    # loop element being the for-target over the argument nodes (or args[i])
    argp, envp = iv.params[2], iv.params[3]
    elems = set()
    for n_ in ast.walk(iv.node):
        if isinstance(n_, ast.For):
            it_ = norm(n_.iter)
            if it_ == argp and isinstance(n_.target, ast.Name):
                elems.add(n_.target.id)
            elif it_ == f"enumerate({argp})" and isinstance(n_.target, ast.Tuple) and len(n_.target.elts) == 2:
                elems.add(norm(n_.target.elts[1]))
                elems.add(f"{argp}[{norm(n_.target.elts[0])}]")
            elif it_ == f"range(len({argp}))" and isinstance(n_.target, ast.Name):
                elems.add(f"{argp}[{n_.target.id}]")
                for a_ in ast.walk(n_):
                    if isinstance(a_, ast.Assign) and norm(a_.value) == f"{argp}[{n_.target.id}]" \
                            and isinstance(a_.targets[0], ast.Name):
                        elems.add(a_.targets[0].id)
    ok = any(isinstance(c_, ast.Call) and isinstance(c_.func, ast.Attribute) and c_.func.attr == "append"
             and len(c_.args) == 1 and isinstance(c_.args[0], ast.Call) and isinstance(c_.args[0].func, ast.Attribute)
             and c_.args[0].func.attr == "evaluate" and norm(c_.args[0].func.value) in elems
             and [norm(x) for x in c_.args[0].args] == [envp] for c_ in ast.walk(iv.node))
    ctx.check("C03.byref", iv, None, ok, "invoke does not pass the evaluated argument objects", expr="invoke values",
              site="invoke: values.append(arg.evaluate(env))")

    # ---------------------------------------------------------------- spread
    loops = [n for n in iv.node.body if isinstance(n, ast.For)]
    argp = iv.params[2]
    ok = len(loops) == 1 and norm(loops[0].iter) in (f"range(len({argp}))", f"enumerate({argp})", argp) \
        and "NodeSpread)" in norm(loops[0])
    ctx.check("C03.spread", iv, None, ok, "arguments (and spreads) are not processed in source order in one loop",
              expr="argument loop", site="invoke: one pass over the arguments in order")
    ok = t.index("args_.addArgs(fn.getArgNames())") < t.index("args_.setArgs(names, values)") < t.index("fn.execute(args_, environment, pos)") \
        if all(x in t for x in ("args_.addArgs(fn.getArgNames())", "args_.setArgs(names, values)",
                                "fn.execute(args_, environment, pos)")) else False
    ctx.check("C03.spread", iv, None, ok, "invoke does not bind names declared by the callee before executing it",
              expr="bind then execute", site="invoke: addArgs(declared) -> setArgs(names, values) -> execute")
