"""C04 - Conditionals, loops, comprehensions and early exits have structured semantics.

Decided statically:
  C04.if      `if/elif/else` evaluates conditions in order, returns the branch with the SAME index as the first
              TRUE condition, and reaches the else expression only after the loop
  C04.signal  in every loop evaluator (6 iterable branches of `for`, and `while`) a `break` or `continue` signal
              produced by the body never leaves the loop evaluator (kind inference: the evaluator's result
              cannot be a break/continue value); `break` leaves the host loop, `continue` does not, `return`
              leaves it with the signal intact; blocks stop at the first signal and hand it on; function calls
              and interpret() unwrap `return` and reject stray break/continue
  C04.while   `while` re-evaluates (and type-checks) its condition on every path from the end of an iteration
              back to the loop test - also after `continue`
  C04.order   `for` enumerates sets and map keys through the sorted views
  C04.pair    in the two-generator comprehensions every statement uses the fields of ONE generator (list1 with
              what1 and identifier1, list2 with what2 and identifier2), except where both lengths are combined
Not decided: element-level equality of comprehension and loop results.
"""
import ast
import re

from ..cfg import CFG
from ..core import norm
from ..kinds import Engine
from .common import known

P = "C04"
EXPLANATION = __doc__
TECHNIQUE = "kind inference of loop results (control signals), fresh/stale dataflow for the while condition, " \
            "sibling suffix agreement in the paired comprehension evaluators"
LEVEL_TEXT = (
    "Static analysis of the control-flow evaluators: decides by abstract interpretation that break/continue "
    "signals are consumed by the loop that receives them and return signals are propagated and unwrapped only by "
    "functions, that `if` selects by index, that `while` re-tests its condition on all back edges, that sets and "
    "map keys are iterated through sorted views and that the paired comprehension forms do not mix up their two "
    "generators. These hold for every nest and every statement position; results of concrete programs are not "
    "computed.")
LEVEL_NOTE = "Trusted: the kinds engine (E4) and its refinement on isBreak()/isContinue()/isReturn() tests."
ASSUMPTIONS = []
FLOORS = {"C04.if": 3, "C04.signal": 14, "C04.while": 2, "C04.order": 3, "C04.pair": 24}

CONTROL_BC = {"ValueControlBreak", "ValueControlContinue"}


def run(ctx):
    model = ctx.model
    engine = Engine(model)
    # ---------------------------------------------------------------- if
    ni = model.method(P, "NodeIf", "evaluate")
    loops = [n for n in ni.node.body if isinstance(n, ast.For)]
    ok = len(loops) == 1 and norm(loops[0].iter) == "range(len(self.conditions))"
    ctx.check("C04.if", ni, None, ok, "conditions are not tried in order in one loop", expr="condition loop",
              site="NodeIf.evaluate: for i in range(len(self.conditions))")
    if ok:
        i = norm(loops[0].target)
        t = norm(loops[0])
        rets = [n for n in ast.walk(loops[0]) if isinstance(n, ast.Return)]
        ok = f"value = self.conditions[{i}].evaluate(environment)" in t and len(rets) == 1 \
            and norm(rets[0].value) == f"self.expressions[{i}].evaluate(environment)"
        par = [n for n in ast.walk(loops[0]) if isinstance(n, ast.If) and rets and rets[0] in n.body]
        ok = ok and len(par) == 1 and norm(par[0].test) in ("value.isTrue()", "value.value")
        ctx.check("C04.if", ni, None, ok,
                  "the branch returned is not expressions[i] for the first i whose condition is TRUE",
                  expr="branch by index", site="NodeIf.evaluate: first TRUE condition selects the branch with the same index")
        ok = norm(ni.node.body[-1]) == "return self.elseExpression.evaluate(environment)" \
            and "elseExpression" not in t
        ctx.check("C04.if", ni, None, ok, "else expression is not evaluated exactly when no condition held",
                  expr="else after loop", site="NodeIf.evaluate: else only after all conditions failed")
        ok = "if not value.isBoolean(): raise CklRuntimeError(" in t.replace("\n", " ")
        ctx.check("C04.if", ni, None, ok, "non-boolean condition is not rejected", expr="condition type",
                  site="NodeIf.evaluate: condition must be boolean")

    # ---------------------------------------------------------------- signals
    for qual in (("NodeFor", "evaluate"), ("NodeWhile", "evaluate")):
        m = model.method(P, *qual)
        ip = engine.interp(m)
        nret = 0
        for ev in ip.events:
            if ev.kind != "return":
                continue
            (v,) = ev.data
            nret += 1
            leak = known(v) and (v.types & CONTROL_BC)
            ctx.check("C04.signal", m, ev.node, not leak,
                      f"{m.qual} can return a {sorted(v.types & CONTROL_BC) if leak else ''} signal: a break/continue "
                      f"meant for this loop would end or restart an enclosing loop instead",
                      expr=f"{norm(ev.node)} #{nret}", site=f"{m.qual}: return #{nret} carries no break/continue")
        if nret < (3 if qual[0] == "NodeFor" else 1):
            ctx.broken(m.qual, f"only {nret} returns analysed")
        # per host loop: break leaves, continue stays, return leaves
        for lp in [n for n in ast.walk(m.node) if isinstance(n, (ast.For, ast.While))]:
            calls = [n for n in ast.walk(lp) if isinstance(n, ast.Call) and norm(n.func) == "self.block.evaluate"]
            inner = [x for x in ast.walk(lp) if isinstance(x, (ast.For, ast.While)) and x is not lp]
            if not calls or any(c in list(ast.walk(i)) for i in inner for c in calls):
                continue
            for test, leaves in (("result.isBreak()", True), ("result.isContinue()", False), ("result.isReturn()", True)):
                br = [n for n in ast.walk(lp) if isinstance(n, ast.If) and norm(n.test) == test]
                ok = len(br) == 1
                if ok:
                    has_break = any(isinstance(s, ast.Break) for s in br[0].body)
                    has_cont = any(isinstance(s, ast.Continue) for s in br[0].body)
                    ok = (has_break == leaves) and not (test == "result.isContinue()" and has_cont and
                                                        isinstance(lp, ast.While))
                    if test == "result.isReturn()":
                        ok = ok and not any(isinstance(s, ast.Assign) for s in br[0].body)
                ctx.check("C04.signal", m, br[0] if br else lp, ok,
                          f"{m.qual}: on `{test}` the host loop is {'not left' if leaves else 'left'} "
                          f"(or the signal is altered)", expr=f"{test} in loop over {norm(getattr(lp, 'iter', getattr(lp, 'test', None)))[:40]}",
                          site=f"{m.qual}: {test} -> {'leave' if leaves else 'stay in'} loop "
                               f"[{norm(getattr(lp, 'iter', getattr(lp, 'test', None)))[:30]}]")
    nb = model.method(P, "NodeBlock", "evaluate")
    lp = [n for n in ast.walk(nb.node) if isinstance(n, ast.For) and norm(n.iter) == "self.expressions"]
    ok = len(lp) == 1
    if ok:
        t = norm(lp[0]).replace("\n", " ")
        ok = all(f"if result.{p}(): break" in t for p in ("isReturn", "isBreak", "isContinue")) \
            and "result = expression.evaluate(environment)" in t
    ctx.check("C04.signal", nb, None, ok, "a block does not stop at the first control signal and hand it on",
              expr="block stops at signals", site="NodeBlock.evaluate: stops at return/break/continue with the signal as result")
    ok = norm(nb.node.body[-1]) == "return result"
    ctx.check("C04.signal", nb, None, ok, "block result is not the last evaluated value", expr="block result",
              site="NodeBlock.evaluate: returns the last result")
    for qual in (("FuncLambda", "execute"), ("Interpreter", "interpret")):
        m = model.method(P, *qual)
        t = norm(m.node).replace("\n", " ")
        unwrap = "return result.value" in t
        rej = t.count("raise CklRuntimeError(") >= 2 and "Cannot use break without surrounding loop" in t \
            and "Cannot use continue without surrounding loop" in t
        ctx.check("C04.signal", m, None, unwrap and rej,
                  f"{m.qual} does not unwrap `return` and reject stray break/continue", expr=f"{m.qual} unwrap",
                  site=f"{m.qual}: return unwrapped, stray break/continue rejected")
    # no other evaluator unwraps return signals
    for c in model.module(P, "nodes").classes.values():
        m = c.methods.get("evaluate")
        if m is None:
            continue
        for n in ast.walk(m.node):
            if isinstance(n, ast.Attribute) and n.attr == "value" and norm(n.value) == "result" \
                    and c.name not in ("NodeWhile",):
                ctx.check("C04.signal", m, n, False, f"{c.name}.evaluate unwraps a result (`result.value`): only "
                          f"function calls may consume a return signal")

    # ---------------------------------------------------------------- while re-test
    nw = model.method(P, "NodeWhile", "evaluate")
    g = CFG(nw.node, implicit_exc=False)

    def is_body(n):
        return n.ast is not None and n.kind != "for" and any(
            isinstance(x, ast.Call) and norm(x.func) == "self.block.evaluate" for x in ast.walk(n.ast))

    def is_reeval(n):
        return isinstance(n.ast, ast.Assign) and isinstance(n.ast.targets[0], ast.Name) \
            and norm(n.ast.value).startswith("self.expression.evaluate(")

    cvs = {n.ast.targets[0].id for n in g.nodes if is_reeval(n)}
    if len(cvs) != 1:
        ctx.broken("NodeWhile.evaluate", f"condition variable not identified ({sorted(cvs)})")
    cv = cvs.pop()

    def transfer(n, label, state):
        if is_body(n):
            return frozenset({"stale"})
        if is_reeval(n):
            return frozenset({"fresh"})
        return state

    st = g.dataflow(frozenset({"unset"}), transfer, lambda a, b: a | b)
    # every host branch on the condition's payload (the loop test, in whatever form it is written)
    tests = [n for n in g.nodes if n.kind == "test" and any(
        isinstance(x, ast.Attribute) and x.attr == "value" and norm(x.value) == cv for x in ast.walk(n.ast))]
    if not tests:
        ctx.broken("NodeWhile.evaluate", "no host branch on the condition's payload found")
    from ..facts import must_facts
    facts = must_facts(g)
    for t in tests:
        s_in = st.get(t.id, frozenset())
        ctx.check("C04.while", nw, t.ast, s_in == frozenset({"fresh"}),
                  f"the loop test can be reached with a condition value that is {sorted(s_in - {'fresh'})}: after some "
                  f"path through the body (e.g. `continue`) the condition is not re-evaluated before the next iteration",
                  expr="condition fresh at loop test",
                  site="NodeWhile.evaluate: condition re-evaluated on every path to the loop test")
        ok = (f"{cv}.isBoolean()", True) in facts.get(t.id, frozenset())
        ctx.check("C04.while", nw, t.ast, ok,
                  "the loop test uses a condition that has not been checked with isBoolean() since it was evaluated",
                  expr="condition type-checked", site="NodeWhile.evaluate: condition type-checked before every test")
    for b in [n for n in g.nodes if is_body(n)]:
        have = facts.get(b.id, frozenset())
        ctx.check("C04.while", nw, b.ast, (f"{cv}.value", True) in have,
                  "the loop body can run without the condition having just tested true",
                  expr="body under a true condition", site="NodeWhile.evaluate: body runs only under a true condition")

    # ---------------------------------------------------------------- order
    nf = model.method(P, "NodeFor", "evaluate")
    from ..partial import prune
    kinds = sorted({x.func.attr for x in ast.walk(nf.node) if isinstance(x, ast.Call)
                    and isinstance(x.func, ast.Attribute) and norm(x.func.value) == "lst"
                    and x.func.attr.startswith("is") and not x.args})
    for kind, want in (("isList", "payload"), ("isSet", "sorted"), ("isMap", "sorted")):
        if kind not in kinds:
            ctx.broken("NodeFor.evaluate", f"no `lst.{kind}()` test found")
        known_ = {f"lst.{k}()": k == kind for k in kinds}
        body, _ = prune(nf.node.body, known_)
        # the host loop(s) that run the block for this kind, and where their sequence comes from
        last_assign = {}
        found = []

        def scan(stmts):
            for st_ in stmts:
                if isinstance(st_, ast.Assign) and len(st_.targets) == 1 and isinstance(st_.targets[0], ast.Name):
                    last_assign[st_.targets[0].id] = st_.value
                if isinstance(st_, ast.For) and any(
                        isinstance(x, ast.Call) and norm(x.func) == "self.block.evaluate" for x in ast.walk(st_)):
                    src = st_.iter
                    hops = 0
                    while isinstance(src, ast.Name) and src.id in last_assign and hops < 5:
                        src = last_assign[src.id]
                        hops += 1
                    found.append((st_, src))
                elif isinstance(st_, (ast.If, ast.For, ast.While, ast.With, ast.Try)):
                    scan(st_.body)
                    scan(getattr(st_, "orelse", []) or [])
        scan(body)
        if not found:
            ctx.broken("NodeFor.evaluate", f"no block-running loop found for {kind}")
        for loop, src in found:
            t = norm(src)
            is_sorted = any(k in t for k in ("sorted(", "getSortedItems()", "getSortedKeys()"))
            if want == "payload":
                ok = t == "lst.value"
                msg = "for over a list does not visit the elements in order"
            else:
                ok = is_sorted
                msg = f"for over a {'set' if kind == 'isSet' else 'map'} does not enumerate the sorted view " \
                      f"(it iterates {t[:60]})"
            ctx.check("C04.order", nf, loop.iter, ok, msg, expr=f"{kind} iteration source",
                      site=f"NodeFor.evaluate: {kind[2:].lower()} -> {'payload order' if want == 'payload' else 'sorted view'}")

    # ---------------------------------------------------------------- paired comprehensions
    nodes = model.module(P, "nodes")
    for c in sorted(nodes.classes.values(), key=lambda c: c.name):
        if not (c.name.endswith("Parallel") or c.name.endswith("Product")):
            continue
        m = c.methods.get("evaluate")
        if m is None:
            continue
        for st_ in ast.walk(m.node):
            if not isinstance(st_, (ast.Assign, ast.Expr)):
                continue
            names = set()
            for x in ast.walk(st_):
                if isinstance(x, ast.Name):
                    names.add(x.id)
                elif isinstance(x, ast.Attribute):
                    names.add(x.attr)
            digits = {mm.group(1) for nm in names for mm in [re.search(r"([12])$", nm)] if mm
                      and re.sub(r"[12]$", "", nm) in ("list", "values", "what", "identifier", "listExpr",
                                                       "listValue", "value")}
            if not digits:
                continue
            ok = len(digits) == 1
            ctx.check("C04.pair", m, st_, ok,
                      f"{c.name}.evaluate mixes the fields of both generators in one statement: `{norm(st_)[:90]}`",
                      site=f"{c.name}.evaluate: {norm(st_)[:70]}")
