"""C04 - Conditionals, loops, comprehensions and early exits have structured semantics.

Decided statically:
  C04.if      `if/elif/else` evaluates conditions in order, returns the branch with the SAME index as the first
              TRUE condition, and reaches the else expression only after the loop
  C04.signal  in every loop evaluator (6 iterable branches of `for`, and `while`) a `break` or `continue` signal
              produced by the body never leaves the loop evaluator (kind inference: the evaluator's result
              cannot be a break/continue value); `break` leaves the host loop, `continue` does not, `return`
              leaves it with the signal intact; blocks stop at the first signal and hand it on; function calls
              and interpret() unwrap `return` and reject stray break/continue
  C04.while   `while` re-evaluates (and type-checks) its condition on every path from the end of an iteration
              back to the loop test - also after `continue`
  C04.order   `for` enumerates sets and map keys through the sorted views
  C04.same    for every collection kind and qualifier (none / keys / values / entries) the for statement and the
              comprehensions enumerate the same thing (both evaluators specialised by partial evaluation and the
              shape of the element compared)
  C04.pair    in the two-generator comprehensions every statement uses the fields of ONE generator (list1 with
              what1 and identifier1, list2 with what2 and identifier2), except where both lengths are combined
Not decided: element-level equality of comprehension and loop results.
"""
import ast
import re

from ..cfg import CFG
from ..core import norm
from ..kinds import Engine
from .common import known

P = "C04"
EXPLANATION = __doc__
TECHNIQUE = "kind inference of loop results (control signals), fresh/stale dataflow for the while condition, " \
            "sibling suffix agreement in the paired comprehension evaluators"
LEVEL_TEXT = (
    "Static analysis of the control-flow evaluators: decides by abstract interpretation that break/continue "
    "signals are consumed by the loop that receives them and return signals are propagated and unwrapped only by "
    "functions, that `if` selects by index, that `while` re-tests its condition on all back edges, that sets and "
    "map keys are iterated through sorted views and that the paired comprehension forms do not mix up their two "
    "generators. These hold for every nest and every statement position; results of concrete programs are not "
    "computed.")
LEVEL_NOTE = "Trusted: the kinds engine (E4) and its refinement on isBreak()/isContinue()/isReturn() tests."
ASSUMPTIONS = []
FLOORS = {"C04.qual": 9, "C04.if": 3, "C04.signal": 14, "C04.while": 2, "C04.order": 3, "C04.pair": 24}

CONTROL_BC = {"ValueControlBreak", "ValueControlContinue"}


def _signal_outcome(loop, eval_suffix, sig):
    """What the host loop does once `result = <x><eval_suffix>(..)` produced the control signal `sig` (None: an
    ordinary value): the loop body after that statement is partially evaluated with result.isReturn/isBreak/
    isContinue decided, and the first host control statement met decides.
    -> ('leave' | 'stay' | 'continue' | 'unknown', result reassigned before that point, node)"""
    from ..partial import prune
    body = loop.body
    idx = None
    var = "result"
    for i, st in enumerate(body):
        if isinstance(st, ast.Assign) and isinstance(st.value, ast.Call) and norm(st.value.func).endswith(eval_suffix) \
                and isinstance(st.targets[0], ast.Name):
            idx = i
            var = st.targets[0].id
    if idx is None:
        return "unknown", False, None
    known = {f"{var}.{k}()": (k == sig) for k in ("isReturn", "isBreak", "isContinue")}
    rest, _ = prune(body[idx + 1:], known)
    altered = False

    def walk(stmts):
        nonlocal altered
        for st in stmts:
            if isinstance(st, ast.Break):
                return "leave", st
            if isinstance(st, ast.Continue):
                return "continue", st
            if isinstance(st, ast.Return):
                return "leave", st
            if isinstance(st, ast.Raise):
                return "stay", None          # an error on the way is not signal handling; nothing follows it
            if isinstance(st, ast.Assign) and any(isinstance(t, ast.Name) and t.id == var for t in st.targets):
                altered = True
            if isinstance(st, ast.If):
                a = walk(st.body)
                b = walk(st.orelse)
                if a[0] != "stay" or b[0] != "stay":
                    if a[0] == b[0]:
                        return a
                    return "unknown", st
            elif isinstance(st, (ast.For, ast.While)):
                if any(isinstance(x, ast.Return) for x in ast.walk(st)):
                    return "unknown", st
            elif isinstance(st, (ast.Try, ast.With)):
                a = walk(st.body)
                if a[0] != "stay":
                    return a
        return "stay", None

    outcome, at = walk(rest)
    if outcome == "continue":
        return "continue" if isinstance(loop, ast.While) else "stay", altered, at
    return outcome, altered, at


def same_elements(ctx, model, nf, gcv):
    from ..partial import prune
    kinds = sorted({x.func.attr for x in ast.walk(nf.node) if isinstance(x, ast.Call)
                    and isinstance(x.func, ast.Attribute) and norm(x.func.value) == "lst"
                    and x.func.attr.startswith("is") and not x.args})
    cparam, wparam = gcv.params[0], gcv.params[1]
    ckinds = sorted({x.func.attr for x in ast.walk(gcv.node) if isinstance(x, ast.Call)
                     and isinstance(x.func, ast.Attribute) and norm(x.func.value) == cparam
                     and x.func.attr.startswith("is") and not x.args})
    quals = ("keys", "values", "entries")

    def shape_of_loop_value(body):
        """what the block-running loop binds to the loop variable: 'key' / 'value' / 'entry' / None"""
        for st in body:
            for lp in ast.walk(st):
                if not (isinstance(lp, ast.For) and any(isinstance(x, ast.Call) and norm(x.func) == "self.block.evaluate"
                                                        for x in ast.walk(lp))):
                    continue
                tg = [norm(x) for x in lp.target.elts] if isinstance(lp.target, ast.Tuple) else [norm(lp.target)]
                puts = [c for c in ast.walk(lp) if isinstance(c, ast.Call) and isinstance(c.func, ast.Attribute)
                        and c.func.attr == "put" and len(c.args) == 2 and norm(c.args[0]) == "self.identifiers[0]"]
                if not puts:
                    return None
                v = puts[0].args[1]
                env = {}
                adds = {}
                for a_ in lp.body:
                    for x in ast.walk(a_):
                        if isinstance(x, ast.Assign) and isinstance(x.targets[0], ast.Name):
                            env[x.targets[0].id] = x.value
                        if isinstance(x, ast.Call) and isinstance(x.func, ast.Attribute) and x.func.attr == "addItem" \
                                and isinstance(x.func.value, ast.Name):
                            adds.setdefault(x.func.value.id, []).append(x.args[0])
                    if any(c is puts[0] for c in ast.walk(a_)):
                        break
                hops = 0
                while isinstance(v, ast.Name) and v.id in env and hops < 4:
                    if v.id in adds and len(adds[v.id]) == 2:
                        return "entry"
                    v = env[v.id]
                    hops += 1
                t = norm(v)
                if len(tg) == 2:
                    if t in (tg[0], f"ValueString({tg[0]})"):
                        return "key"
                    if t == tg[1]:
                        return "value"
                if isinstance(v, ast.Name) and v.id in adds and len(adds[v.id]) == 2:
                    return "entry"
                return None
        return None

    def shape_of_source(body):
        rets = [r for st in body for r in ast.walk(st) if isinstance(r, ast.Return) and r.value is not None]
        if len(rets) != 1:
            return None
        single = {}
        for st in body:
            for a_ in ast.walk(st):
                if isinstance(a_, ast.Assign) and len(a_.targets) == 1 and isinstance(a_.targets[0], ast.Name):
                    single.setdefault(a_.targets[0].id, []).append(norm(a_.value))
        t = norm(rets[0].value)
        for nm, vals in single.items():
            if len(vals) == 1:
                t = re.sub(r"\b" + re.escape(nm) + r"\b", vals[0], t)
        if "convertEntries(" in t:
            return "entry"
        if ".values()" in t or re.search(r"\.value\[\w+\] for \w+ in", t):
            return "value"
        if ".keys()" in t or "getSortedKeys()" in t:
            return "key"
        return None

    n = 0
    for kind in ("isMap", "isObject"):
        if kind not in kinds or kind not in ckinds:
            ctx.broken("NodeFor / getCollectionValue", f"no `{kind}()` test found")
        for q in (None,) + quals:
            known_f = {f"lst.{k}()": k == kind for k in kinds}
            known_f.update({f"self.what == '{x}'": x == q for x in quals})
            fb, _ = prune(nf.node.body, known_f)
            known_c = {f"{cparam}.{k}()": k == kind for k in ckinds}
            known_c.update({f"{wparam} == '{x}'": x == q for x in quals})
            cb, _ = prune(gcv.node.body, known_c)
            a, b = shape_of_loop_value(fb), shape_of_source(cb)
            if a is None or b is None:
                ctx.broken("NodeFor / getCollectionValue", f"element shape for {kind[2:].lower()} / {q} not understood "
                                                            f"(for: {a}, comprehension: {b})")
            n += 1
            ctx.check("C04.same", nf, None, a == b,
                      f"over a {kind[2:].lower()} {'with qualifier `' + q + '`' if q else 'without qualifier'} the for "
                      f"statement binds the {a} and a comprehension draws the {b}: the comprehension does not yield "
                      f"the elements of its explicit loop",
                      expr=f"{kind[2:].lower()} {q or 'unqualified'}: for={a} comprehension={b}",
                      site=f"{kind[2:].lower()} / {q or 'no qualifier'}: for statement and comprehension enumerate the same thing")


def qualifier_chains(ctx, model):
    """The `keys` / `values` / `entries` qualifier after `in` (for statement, list / set / map comprehension, first and
    second collection): the arms of one qualifier chain `if lexer.matchIf("keys", ..): v = "keys" elif ..` are
    siblings - every arm records the word it has just matched, and all of them in the same variable (the second
    collection's chain in the second collection's variable)."""
    parser = model.module(P, "parser")
    n = 0
    done = set()
    for f in parser.all_funcs():
        for node in ast.walk(f.node):
            if not isinstance(node, ast.If) or id(node) in done:
                continue
            arms, x = [], node
            while True:
                arms.append(x)
                if len(x.orelse) == 1 and isinstance(x.orelse[0], ast.If):
                    x = x.orelse[0]
                    done.add(id(x))
                else:
                    break
            rec = []
            for a in arms:
                t = a.test
                if isinstance(t, ast.Call) and isinstance(t.func, ast.Attribute) and t.func.attr == "matchIf" \
                        and t.args and isinstance(t.args[0], ast.Constant) \
                        and t.args[0].value in ("keys", "values", "entries") and len(a.body) == 1:
                    st = a.body[0]
                    if isinstance(st, ast.Assign) and len(st.targets) == 1 and isinstance(st.value, ast.Constant):
                        rec.append((t.args[0].value, norm(st.targets[0]), st.value.value, st))
                    elif isinstance(st, ast.Return) and isinstance(st.value, ast.Constant):
                        rec.append((t.args[0].value, "<return>", st.value.value, st))
            if len(rec) < 2:
                continue
            n += 1
            targets = {r[1] for r in rec}
            wrong = [r for r in rec if r[0] != r[2]]
            # the odd one out among the targets
            odd = None
            if len(targets) > 1:
                from collections import Counter
                common_t = Counter(r[1] for r in rec).most_common(1)[0][0]
                odd = next(r for r in rec if r[1] != common_t)
            bad = wrong[0] if wrong else odd
            ctx.check("C04.qual", f, bad[3] if bad else node, bad is None,
                      (f"the arm for `{bad[0]}` records {bad[2]!r}" if wrong else
                       f"the arm for `{bad[0] if bad else ''}` records the qualifier in `{bad[1] if bad else ''}` while "
                       f"its sibling arms use `{sorted(targets - {bad[1]})[0] if bad else ''}`") +
                      ": the collection is then enumerated under another qualifier than the one written (keys / values "
                      "/ entries), so a comprehension differs from the equivalent loop",
                      expr=f"qualifier chain {sorted(targets)}",
                      site=f"{f.qual}: qualifier chain #{n} records the matched word in one variable")
    if n < 1:
        ctx.broken("parser", "no keys / values / entries qualifier chain found in the parser")


def run(ctx):
    model = ctx.model
    qualifier_chains(ctx, model)
    engine = Engine(model)
    # ---------------------------------------------------------------- if
    ni = model.method(P, "NodeIf", "evaluate")
    loops = [n for n in ni.node.body if isinstance(n, ast.For)]
    cond_el, expr_el = set(), set()
    if len(loops) == 1:
        it, tg = norm(loops[0].iter), loops[0].target
        if it == "range(len(self.conditions))" and isinstance(tg, ast.Name):
            cond_el, expr_el = {f"self.conditions[{tg.id}]"}, {f"self.expressions[{tg.id}]"}
        elif it == "enumerate(self.conditions)" and isinstance(tg, ast.Tuple) and len(tg.elts) == 2:
            i_, c_ = [norm(x) for x in tg.elts]
            cond_el, expr_el = {c_, f"self.conditions[{i_}]"}, {f"self.expressions[{i_}]"}
        elif it == "zip(self.conditions, self.expressions)" and isinstance(tg, ast.Tuple) and len(tg.elts) == 2:
            cond_el, expr_el = {norm(tg.elts[0])}, {norm(tg.elts[1])}
    ok = bool(cond_el)
    ctx.check("C04.if", ni, None, ok, "conditions are not tried in order in one loop", expr="condition loop",
              site="NodeIf.evaluate: one loop over the conditions, in order, paired with the branches by position")
    if ok:
        t = norm(loops[0])
        envp = ni.params[1]
        rets = [n for n in ast.walk(loops[0]) if isinstance(n, ast.Return)]
        vals = [a for a in ast.walk(loops[0]) if isinstance(a, ast.Assign) and isinstance(a.targets[0], ast.Name)
                and isinstance(a.value, ast.Call) and norm(a.value.func).endswith(".evaluate")
                and norm(a.value.func.value) in cond_el]
        v = vals[0].targets[0].id if len(vals) == 1 else None
        ok = v is not None and len(rets) == 1 and isinstance(rets[0].value, ast.Call) \
            and norm(rets[0].value.func).endswith(".evaluate") and norm(rets[0].value.func.value) in expr_el \
            and [norm(a) for a in rets[0].value.args] == [envp]
        par = [n for n in ast.walk(loops[0]) if isinstance(n, ast.If) and rets and rets[0] in n.body]
        ok = ok and len(par) == 1 and norm(par[0].test) in (f"{v}.isTrue()", f"{v}.value")
        ctx.check("C04.if", ni, None, ok,
                  "the branch returned is not expressions[i] for the first i whose condition is TRUE",
                  expr="branch by index", site="NodeIf.evaluate: first TRUE condition selects the branch with the same index")
        ok = norm(ni.node.body[-1]) == f"return self.elseExpression.evaluate({envp})" \
            and "elseExpression" not in t
        ctx.check("C04.if", ni, None, ok, "else expression is not evaluated exactly when no condition held",
                  expr="else after loop", site="NodeIf.evaluate: else only after all conditions failed")
        from ..facts import must_facts as _mf
        g_ = CFG(ni.node, implicit_exc=False)
        f_ = _mf(g_)
        ok = bool(par) and v is not None
        for node in g_.nodes:
            if ok and node.kind == "test" and par and node.ast is par[0].test:
                ok = (f"{v}.isBoolean()", True) in f_.get(node.id, frozenset())
        ok = ok and any(isinstance(n, ast.If) and norm(n.test) == f"not {v}.isBoolean()" and isinstance(n.body[0], ast.Raise)
                        and "CklRuntimeError" in norm(n.body[0].exc) for n in ast.walk(loops[0]))
        ctx.check("C04.if", ni, None, ok, "non-boolean condition is not rejected", expr="condition type",
                  site="NodeIf.evaluate: condition must be boolean")

    # ---------------------------------------------------------------- signals
    for qual in (("NodeFor", "evaluate"), ("NodeWhile", "evaluate")):
        m = model.method(P, *qual)
        ip = engine.interp(m)
        nret = 0
        for ev in ip.events:
            if ev.kind != "return":
                continue
            (v,) = ev.data
            nret += 1
            leak = known(v) and (v.types & CONTROL_BC)
            ctx.check("C04.signal", m, ev.node, not leak,
                      f"{m.qual} can return a {sorted(v.types & CONTROL_BC) if leak else ''} signal: a break/continue "
                      f"meant for this loop would end or restart an enclosing loop instead",
                      expr=f"{norm(ev.node)} #{nret}", site=f"{m.qual}: return #{nret} carries no break/continue")
        if nret < (3 if qual[0] == "NodeFor" else 1):
            ctx.broken(m.qual, f"only {nret} returns analysed")
        # per host loop: break leaves, continue stays, return leaves
        for lp in [n for n in ast.walk(m.node) if isinstance(n, (ast.For, ast.While))]:
            calls = [n for n in ast.walk(lp) if isinstance(n, ast.Call) and norm(n.func) == "self.block.evaluate"]
            inner = [x for x in ast.walk(lp) if isinstance(x, (ast.For, ast.While)) and x is not lp]
            if not calls or any(c in list(ast.walk(i)) for i in inner for c in calls):
                continue
            for sig, leaves in (("isBreak", True), ("isContinue", False), ("isReturn", True)):
                outcome, altered, at = _signal_outcome(lp, "self.block.evaluate", sig)
                ok = outcome == ("leave" if leaves else "stay")
                if sig == "isReturn":
                    ok = ok and not altered
                if sig == "isContinue" and outcome == "continue" and isinstance(lp, ast.While):
                    ok = False          # a host `continue` would skip whatever follows in the iteration
                test = f"result.{sig}()"
                ctx.check("C04.signal", m, at if at is not None else lp, ok,
                          f"{m.qual}: on `{test}` the host loop is {'not left' if leaves else 'left'} "
                          f"(or the signal is altered)", expr=f"{test} in loop over {norm(getattr(lp, 'iter', getattr(lp, 'test', None)))[:40]}",
                          site=f"{m.qual}: {test} -> {'leave' if leaves else 'stay in'} loop "
                               f"[{norm(getattr(lp, 'iter', getattr(lp, 'test', None)))[:30]}]")
    nb = model.method(P, "NodeBlock", "evaluate")
    lp = [n for n in ast.walk(nb.node) if isinstance(n, ast.For) and norm(n.iter) == "self.expressions"]
    ok = len(lp) == 1
    if ok:
        for sig in ("isReturn", "isBreak", "isContinue"):
            outcome, altered, at = _signal_outcome(lp[0], ".evaluate", sig)
            ok = ok and outcome == "leave" and not altered
        outcome, altered, at = _signal_outcome(lp[0], ".evaluate", None)
        ok = ok and outcome == "stay"
    ctx.check("C04.signal", nb, None, ok, "a block does not stop at the first control signal and hand it on",
              expr="block stops at signals", site="NodeBlock.evaluate: stops at return/break/continue with the signal as result")
    ok = norm(nb.node.body[-1]) == "return result"
    ctx.check("C04.signal", nb, None, ok, "block result is not the last evaluated value", expr="block result",
              site="NodeBlock.evaluate: returns the last result")
    from ..partial import prune
    from .common import raised_ctors
    for qual in (("FuncLambda", "execute"), ("Interpreter", "interpret")):
        m = model.method(P, *qual)

        def find_rest(stmts):
            for i, st in enumerate(stmts):
                if isinstance(st, ast.Assign) and isinstance(st.targets[0], ast.Name) and any(
                        isinstance(x, ast.Call) and isinstance(x.func, ast.Attribute) and x.func.attr == "evaluate"
                        for x in ast.walk(st.value)):
                    return st.targets[0].id, stmts[i + 1:]
                for fld in ("body", "orelse", "finalbody"):
                    sub = getattr(st, fld, None)
                    if isinstance(sub, list) and sub and isinstance(sub[0], ast.stmt):
                        r = find_rest(sub)
                        if r:
                            return r
            return None

        fr = find_rest(m.node.body)
        if fr is None:
            ctx.broken(m.qual, "evaluation of the body / script not found")
        var, rest = fr

        def first_exit(sig):
            known_ = {f"{var}.{k}()": (k == sig) for k in ("isReturn", "isBreak", "isContinue")}
            known_.update({f"isinstance({var}, ValueControl{k[2:]})": (k == sig)
                           for k in ("isReturn", "isBreak", "isContinue")})
            stmts, _ = prune(rest, known_)
            for st in stmts:
                if isinstance(st, (ast.Return, ast.Raise)):
                    return st
                if isinstance(st, (ast.If, ast.For, ast.While, ast.Try, ast.With)):
                    return None
            return None

        r = first_exit("isReturn")
        unwrap = isinstance(r, ast.Return) and r.value is not None and norm(r.value) == f"{var}.value"
        rej = True
        for sig in ("isBreak", "isContinue"):
            r = first_exit(sig)
            cs = raised_ctors(model, m, r.exc) if isinstance(r, ast.Raise) and r.exc is not None else None
            rej = rej and bool(cs) and all(norm(c.func) == "CklRuntimeError" for c in cs)
        ctx.check("C04.signal", m, None, unwrap and rej,
                  f"{m.qual} does not unwrap `return` and reject stray break/continue", expr=f"{m.qual} unwrap",
                  site=f"{m.qual}: return unwrapped, stray break/continue rejected")
    # the parser replaces a trailing `return x` by `x` only for the whole script (top level): anywhere else the return
    # must stay a return, or `( ...; return v )` inside a function stops leaving the function
    pm = model.module(P, "parser")
    unwrappers = [f_ for f_ in pm.funcs.values() if any(
        isinstance(n_, ast.Call) and norm(n_.func) == "isinstance" and len(n_.args) == 2 and norm(n_.args[1]) == "NodeReturn"
        for n_ in ast.walk(f_.node)) and any(isinstance(n_, ast.Attribute) and n_.attr == "expression"
                                            for n_ in ast.walk(f_.node))]
    if not unwrappers:
        ctx.broken("parser.py", "the top-level `return x` -> `x` rewrite was not found")
    from ..facts import must_facts as _mfu
    for uw in unwrappers:
        if uw.name == "parse":
            ctx.ob("C04.signal", "parser.parse: trailing return of the script is replaced by its expression", True)
            continue
        for caller in pm.funcs.values():
            gcl = None
            for c_ in ast.walk(caller.node):
                if isinstance(c_, ast.Call) and isinstance(c_.func, ast.Name) and c_.func.id == uw.name:
                    if caller.name == "parse":
                        ctx.ob("C04.signal", f"parser.parse: {uw.name}(..) at top level", True)
                        continue
                    if gcl is None:
                        gcl = CFG(caller.node, implicit_exc=False)
                        fcl = _mfu(gcl)
                    ok_ = False
                    for node in gcl.nodes:
                        a_ = node.ast if node.kind != "for" else None
                        if a_ is not None and any(x is c_ for x in ast.walk(a_)):
                            ok_ = ("toplevel", True) in fcl.get(node.id, frozenset())
                    ctx.check("C04.signal", caller, c_, ok_,
                              f"{caller.qual} strips a trailing `return` ({uw.name}) where the sequence is not known to "
                              f"be the whole script: a `return v` at the end of a parenthesised sequence inside a "
                              f"function no longer leaves the function",
                              site=f"{caller.qual}: {uw.name}(..) only for the top-level script")
    # no other evaluator unwraps return signals
    for c in model.module(P, "nodes").classes.values():
        m = c.methods.get("evaluate")
        if m is None:
            continue
        for n in ast.walk(m.node):
            if isinstance(n, ast.Attribute) and n.attr == "value" and norm(n.value) == "result" \
                    and c.name not in ("NodeWhile",):
                ctx.check("C04.signal", m, n, False, f"{c.name}.evaluate unwraps a result (`result.value`): only "
                          f"function calls may consume a return signal")

    # ---------------------------------------------------------------- while re-test
    nw = model.method(P, "NodeWhile", "evaluate")
    g = CFG(nw.node, implicit_exc=False)

    def is_body(n):
        return n.ast is not None and n.kind != "for" and any(
            isinstance(x, ast.Call) and norm(x.func) == "self.block.evaluate" for x in ast.walk(n.ast))

    from .common import resolve_static_call

    def checked_helper(call):
        """a method of the node that evaluates self.expression and returns that value only when it is a boolean"""
        callee = resolve_static_call(model, nw, call) if isinstance(call, ast.Call) else None
        if callee is None or callee is nw:
            return False
        gh = CFG(callee.node, implicit_exc=False)
        from ..facts import must_facts as _mfh
        fh = _mfh(gh)
        vars_ = {a.targets[0].id for a in ast.walk(callee.node) if isinstance(a, ast.Assign)
                 and isinstance(a.targets[0], ast.Name) and norm(a.value).startswith("self.expression.evaluate(")}
        rets = [n for n in gh.nodes if n.kind == "return"]
        return bool(vars_) and bool(rets) and all(
            isinstance(r.ast.value, ast.Name) and r.ast.value.id in vars_
            and (f"{r.ast.value.id}.isBoolean()", True) in fh.get(r.id, frozenset()) for r in rets)

    helper_checked = set()
    direct_reeval = set()

    def is_reeval(n):
        if not (isinstance(n.ast, ast.Assign) and isinstance(n.ast.targets[0], ast.Name)):
            return False
        if norm(n.ast.value).startswith("self.expression.evaluate("):
            direct_reeval.add(n.ast.targets[0].id)
            return True
        if checked_helper(n.ast.value):
            helper_checked.add(n.ast.targets[0].id)
            return True
        return False

    cvs = {n.ast.targets[0].id for n in g.nodes if is_reeval(n)}
    if len(cvs) != 1:
        ctx.broken("NodeWhile.evaluate", f"condition variable not identified ({sorted(cvs)})")
    cv = cvs.pop()

    def transfer(n, label, state):
        if is_body(n):
            return frozenset({"stale"})
        if is_reeval(n):
            return frozenset({"fresh"})
        return state

    st = g.dataflow(frozenset({"unset"}), transfer, lambda a, b: a | b)
    # every host branch on the condition's payload (the loop test, in whatever form it is written)
    tests = [n for n in g.nodes if n.kind == "test" and any(
        isinstance(x, ast.Attribute) and x.attr == "value" and norm(x.value) == cv for x in ast.walk(n.ast))]
    if not tests:
        ctx.broken("NodeWhile.evaluate", "no host branch on the condition's payload found")
    from ..facts import must_facts
    facts = must_facts(g)
    for t in tests:
        s_in = st.get(t.id, frozenset())
        ctx.check("C04.while", nw, t.ast, s_in == frozenset({"fresh"}),
                  f"the loop test can be reached with a condition value that is {sorted(s_in - {'fresh'})}: after some "
                  f"path through the body (e.g. `continue`) the condition is not re-evaluated before the next iteration",
                  expr="condition fresh at loop test",
                  site="NodeWhile.evaluate: condition re-evaluated on every path to the loop test")
        ok = (f"{cv}.isBoolean()", True) in facts.get(t.id, frozenset()) or (cv in helper_checked and cv not in direct_reeval)
        ctx.check("C04.while", nw, t.ast, ok,
                  "the loop test uses a condition that has not been checked with isBoolean() since it was evaluated",
                  expr="condition type-checked", site="NodeWhile.evaluate: condition type-checked before every test")
    for b in [n for n in g.nodes if is_body(n)]:
        have = facts.get(b.id, frozenset())
        ctx.check("C04.while", nw, b.ast, (f"{cv}.value", True) in have,
                  "the loop body can run without the condition having just tested true",
                  expr="body under a true condition", site="NodeWhile.evaluate: body runs only under a true condition")

    # ---------------------------------------------------------------- order
    nf = model.method(P, "NodeFor", "evaluate")
    from ..partial import prune
    kinds = sorted({x.func.attr for x in ast.walk(nf.node) if isinstance(x, ast.Call)
                    and isinstance(x.func, ast.Attribute) and norm(x.func.value) == "lst"
                    and x.func.attr.startswith("is") and not x.args})
    for kind, want in (("isList", "payload"), ("isSet", "sorted"), ("isMap", "sorted")):
        if kind not in kinds:
            ctx.broken("NodeFor.evaluate", f"no `lst.{kind}()` test found")
        known_ = {f"lst.{k}()": k == kind for k in kinds}
        body, _ = prune(nf.node.body, known_)
        # the host loop(s) that run the block for this kind, and where their sequence comes from
        last_assign = {}
        found = []

        def scan(stmts):
            for st_ in stmts:
                if isinstance(st_, ast.Assign) and len(st_.targets) == 1 and isinstance(st_.targets[0], ast.Name):
                    last_assign[st_.targets[0].id] = st_.value
                if isinstance(st_, ast.For) and any(
                        isinstance(x, ast.Call) and norm(x.func) == "self.block.evaluate" for x in ast.walk(st_)):
                    src = st_.iter
                    hops = 0
                    while isinstance(src, ast.Name) and src.id in last_assign and hops < 5:
                        src = last_assign[src.id]
                        hops += 1
                    found.append((st_, src))
                elif isinstance(st_, (ast.If, ast.For, ast.While, ast.With, ast.Try)):
                    scan(st_.body)
                    scan(getattr(st_, "orelse", []) or [])
        scan(body)
        if not found:
            ctx.broken("NodeFor.evaluate", f"no block-running loop found for {kind}")
        for loop, src in found:
            t = norm(src)
            is_sorted = any(k in t for k in ("sorted(", "getSortedItems()", "getSortedKeys()"))
            if want == "payload":
                ok = t == "lst.value"
                msg = "for over a list does not visit the elements in order"
            else:
                ok = is_sorted
                msg = f"for over a {'set' if kind == 'isSet' else 'map'} does not enumerate the sorted view " \
                      f"(it iterates {t[:60]})"
            ctx.check("C04.order", nf, loop.iter, ok, msg, expr=f"{kind} iteration source",
                      site=f"NodeFor.evaluate: {kind[2:].lower()} -> {'payload order' if want == 'payload' else 'sorted view'}")

    # comprehensions draw their elements from getCollectionValue: for a map that must be the order of the sorted
    # keys as well - for the keys, for the values (values in KEY order, not sorted by value) and for the entries
    from .common import collection_sources
    gcv = model.func(P, "nodes", "getCollectionValue")
    rows = collection_sources(model, P)
    if rows is None:
        ctx.broken("getCollectionValue", "kind tests / results not found")
    for kind, r, ok, t, by_value in rows:
        ctx.check("C04.order", gcv, r, ok,
                  f"a comprehension over a {'set' if kind == 'isSet' else 'map'} draws `{t[:70]}`: "
                  f"{'the values sorted by value, not in the order of their keys - ' if by_value else ''}"
                  f"not the sorted order the for statement uses, so the comprehension and its explicit loop differ",
                  site=f"getCollectionValue ({kind[2:].lower()}): {t[:60]}")

    # the for statement and the comprehensions agree on WHAT they enumerate (keys / values / entries) for every
    # qualifier, including none: both evaluators are specialised per (collection kind, qualifier) and the shape of
    # the element compared
    same_elements(ctx, model, nf, gcv)

    # ---------------------------------------------------------------- paired comprehensions
    nodes = model.module(P, "nodes")
    for c in sorted(nodes.classes.values(), key=lambda c: c.name):
        if not (c.name.endswith("Parallel") or c.name.endswith("Product")):
            continue
        m = c.methods.get("evaluate")
        if m is None:
            continue
        for st_ in ast.walk(m.node):
            if not isinstance(st_, (ast.Assign, ast.Expr)):
                continue
            names = set()
            for x in ast.walk(st_):
                if isinstance(x, ast.Name):
                    names.add(x.id)
                elif isinstance(x, ast.Attribute):
                    names.add(x.attr)
            digits = {mm.group(1) for nm in names for mm in [re.search(r"([12])$", nm)] if mm
                      and re.sub(r"[12]$", "", nm) in ("list", "values", "what", "identifier", "listExpr",
                                                       "listValue", "value")}
            if not digits:
                continue
            ok = len(digits) == 1
            ctx.check("C04.pair", m, st_, ok,
                      f"{c.name}.evaluate mixes the fields of both generators in one statement: `{norm(st_)[:90]}`",
                      site=f"{c.name}.evaluate: {norm(st_)[:70]}")
    # the same pairing where the nodes are built: constructor fields take their own parameter, and the parser hands
    # generator-1 things to the ...1 parameters and generator-2 things to the ...2 parameters
    parser_mod = model.module(P, "parser")
    for c in sorted(nodes.classes.values(), key=lambda c: c.name):
        if not (c.name.endswith("Parallel") or c.name.endswith("Product")):
            continue
        init = c.methods.get("__init__")
        if init is None:
            continue
        params = init.params[1:]
        for a in ast.walk(init.node):
            if isinstance(a, ast.Assign) and isinstance(a.targets[0], ast.Attribute) and norm(a.targets[0].value) == "self" \
                    and re.search(r"[12]$", a.targets[0].attr) and isinstance(a.value, ast.Name):
                ctx.check("C04.pair", init, a, a.value.id == a.targets[0].attr,
                          f"{c.name}.__init__ stores parameter `{a.value.id}` in field `{a.targets[0].attr}`",
                          site=f"{c.name}.__init__: self.{a.targets[0].attr} = {a.targets[0].attr}")
        for f in parser_mod.funcs.values():
            for call in ast.walk(f.node):
                if not (isinstance(call, ast.Call) and isinstance(call.func, ast.Name) and call.func.id == c.name):
                    continue
                for pn, arg in zip(params, call.args):
                    mm = re.search(r"([12])$", pn)
                    if not mm or not isinstance(arg, ast.Name):
                        continue
                    second = arg.id.endswith("2")
                    ok = second == (mm.group(1) == "2")
                    ctx.check("C04.pair", f, arg, ok,
                              f"{c.name}(..): parameter `{pn}` (generator {mm.group(1)}) receives `{arg.id}`, which "
                              f"belongs to generator {'2' if second else '1'}",
                              expr=f"{c.name}({pn}={arg.id})", site=f"{f.qual}: {c.name}({pn}=<generator {mm.group(1)}>)")
