"""C05 - Errors reach the nearest matching handler and finally runs exactly once.

Decided statically:
  C05.finally      in NodeBlock.evaluate the `finally` statements are entered exactly once on every way out -
                   normal end, control signal, error caught, error uncaught, error inside a handler (counting
                   dataflow on the CFG with exception and finally edges)
  C05.handler      the runtime-error handler tries the catch clauses in list order, matches by `==` on the
                   error value (or the `all` form), returns the first match's result and otherwise re-raises the
                   *same* error; the catch value is evaluated at the time of the error
  C05.nodestate    evaluation never writes into the syntax tree (no `self.x = ..` / mutation of a node field
                   inside any evaluate): a block evaluated twice cannot remember the first run
  C05.transparent  no handler between a raise and the nearest `catch` rewrites a language error: every except
                   clause that can catch CklRuntimeError around user-code evaluation re-raises it unchanged
  C05.unwind       code that runs inside such a re-raising handler (stack-trace bookkeeping) cannot itself raise
                   a different error that would replace the one in flight
  C05.errshape     every CklRuntimeError is constructed with a language value first and a host string second
  C05.error        `error v` raises with the evaluated value as the error value
Not decided: which error value a given runtime fault carries.
"""
import ast

from ..callgraph import CallGraph
from ..cfg import CFG
from ..core import norm
from ..kinds import Engine
from ..facts import must_facts
from ..pathcount import count_events
from .common import known

P = "C05"
EXPLANATION = __doc__
TECHNIQUE = "exactly-once counting dataflow on a CFG with exception/finally edges; enumeration of all except " \
            "clauses with call-graph reachability of user-code evaluation; kind inference for error shapes"
LEVEL_TEXT = (
    "Static path analysis of the block evaluator and of every except clause in the package: decides that the "
    "finally part is entered exactly once on all control-flow paths including exceptional ones, that handler "
    "selection is by value in order with the same error re-raised when nothing matches, that evaluation keeps no "
    "state in the syntax tree, that no intermediate Python handler rewrites or replaces a language error on its "
    "way to a catch, and that errors are well-formed. This quantifies over all nestings and raise sites; it "
    "does not run programs.")
LEVEL_NOTE = ("Trusted: CPython try/except/finally semantics as encoded in the CFG builder; the call-graph "
              "resolution (str()/repr()/f-strings dispatch to every __repr__ in the package).")
ASSUMPTIONS = ["host front ends (run.py, repl.py) are the outermost handlers and are exempt from C05.transparent"]
FLOORS = {"C05.finally": 2, "C05.handler": 5, "C05.nodestate": 39, "C05.transparent": 30, "C05.errshape": 100,
          "C05.unwind": 3}

USER_CODE = {"evaluate", "execute", "interpret", "process"}


def run(ctx):
    model = ctx.model
    nb = model.method(P, "NodeBlock", "evaluate")
    finally_once(ctx, model, nb)
    handler(ctx, model, nb)
    nodestate(ctx, model)
    transparent(ctx, model)
    errshape(ctx, model)


# --------------------------------------------------------------------------------------------------
def _finally_loops(func):
    return [n for n in ast.walk(func.node) if isinstance(n, ast.For) and norm(n.iter) == "self.finallyexprs"]


def _once_summary(model, cls, depth=0):
    """Methods of `cls` that run the finally list exactly once on all their exits."""
    out = set()
    for m in cls.methods.values():
        if m.name in ("evaluate", "__init__", "__repr__", "collectVars"):
            continue
        loops = _finally_loops(m)
        if not loops:
            continue
        g = CFG(m.node, implicit_exc=True)
        st = count_events(g, _delta_factory(loops, set()))
        if st.get(g.exit.id) == frozenset({1}) and st.get(g.raise_exit.id) in (None, frozenset({1})):
            out.add(m.name)
    return out


def _delta_factory(loops, helper_names):
    inside = {}
    for lp in loops:
        inside[id(lp)] = {id(x) for st in lp.body for x in ast.walk(st)} | {id(st) for st in lp.body}

    def delta(node, label, succ):
        d = 0
        if succ is not None and succ.kind == "for" and any(succ.ast is lp for lp in loops):
            lp = [l for l in loops if succ.ast is l][0]
            origin = node.origin if node.origin is not None else node.ast
            from_inside = origin is not None and (id(origin) in inside[id(lp)] or node.ast is lp)
            if not from_inside:
                d += 1
        if helper_names and node.ast is not None and node.kind != "for":
            for x in ast.walk(node.ast):
                if isinstance(x, ast.Call) and isinstance(x.func, ast.Attribute) and norm(x.func.value) == "self" \
                        and x.func.attr in helper_names:
                    d += 1
        return d

    return delta


def finally_once(ctx, model, nb):
    cls = nb.cls
    helpers = _once_summary(model, cls)
    loops = _finally_loops(nb)
    if not loops and not any(isinstance(x, ast.Call) and isinstance(x.func, ast.Attribute) and x.func.attr in helpers
                             for x in ast.walk(nb.node)):
        ctx.broken("NodeBlock.evaluate", "no traversal of self.finallyexprs found")
    g = CFG(nb.node, implicit_exc=True)
    st = count_events(g, _delta_factory(loops, helpers))
    normal, exc = st.get(g.exit.id), st.get(g.raise_exit.id)
    ctx.check("C05.finally", nb, None, normal == frozenset({1}),
              f"on some normally-leaving path the finally statements are entered {sorted(normal or [])} times "
              f"(expected exactly once)", expr="finally count on return",
              site="NodeBlock.evaluate: finally entered exactly once on every returning path")
    ctx.check("C05.finally", nb, None, exc == frozenset({1}),
              f"on some path that leaves through an exception the finally statements are entered "
              f"{sorted(exc or [])} times (expected exactly once)", expr="finally count on exception",
              site="NodeBlock.evaluate: finally entered exactly once on every exceptional path")
    # the statements of the finally part are all evaluated, in order, in the block's environment
    for lp in loops:
        ok = len(lp.body) == 1 and norm(lp.body[0]) == f"{norm(lp.target)}.evaluate(environment)"
        ctx.check("C05.finally", nb, lp, ok, "a finally statement is skipped or evaluated elsewhere",
                  site="NodeBlock.evaluate: each finally statement evaluated once, in order")
    # parser: every parsed finally statement is added
    pb = model.func(P, "parser", "parse_block")
    fin = None
    for n in ast.walk(pb.node):
        if isinstance(n, ast.If) and norm(n.test) == "lexer.matchIf('finally', 'keyword')":
            fin = n
    if fin is None:
        ctx.broken("parse_block", "finally clause parsing not found")
    lp = [n for n in fin.body if isinstance(n, ast.While)]
    ok = False
    if len(lp) == 1:
        g2 = CFG(_as_func(lp[0].body), implicit_exc=False)
        # on every path through one loop iteration the parsed statement is added to the block
        from ..pathcount import must_pass

        def tag(node, label):
            a = node.ast
            if a is not None and node.kind != "for":
                for x in ast.walk(a):
                    if isinstance(x, ast.Call) and norm(x.func) == "block.addFinally":
                        return "added"
            return None

        mp = must_pass(g2, tag)
        ends = [mp.get(g2.exit.id, frozenset())]
        # paths that leave the iteration through `break` end at exit as well (loop context is the fake function)
        ok = all("added" in e for e in ends)
        parsed_before = True
    ctx.check("C05.finally", pb, None, ok,
              "a statement parsed in the finally section can be dropped without being added to the block",
              expr="addFinally on every path", site="parse_block: every finally statement is added to the block")


def _as_func(body):
    f = ast.FunctionDef(name="_frag", args=ast.arguments(posonlyargs=[], args=[], kwonlyargs=[], kw_defaults=[],
                                                         defaults=[], vararg=None, kwarg=None),
                        body=_break_to_return(body), decorator_list=[], returns=None, type_comment=None,
                        lineno=1, col_offset=0)
    if hasattr(ast, "TypeVar"):
        f.type_params = []
    return f


def _break_to_return(body):
    """Copy of a loop body in which break/continue leave the fragment (so that it can be analysed as a function)."""
    import copy

    class R(ast.NodeTransformer):
        def visit_Break(self, n):
            return ast.copy_location(ast.Return(value=None), n)

        def visit_Continue(self, n):
            return ast.copy_location(ast.Return(value=None), n)

        def visit_While(self, n):
            return n

        def visit_For(self, n):
            return n

    return [R().visit(copy.deepcopy(s)) for s in body]


# --------------------------------------------------------------------------------------------------
def handler(ctx, model, nb):
    tries = [n for n in ast.walk(nb.node) if isinstance(n, ast.Try)]
    if len(tries) != 1:
        ctx.broken("NodeBlock.evaluate", f"{len(tries)} try statements (expected 1)")
    t = tries[0]
    hs = [h for h in t.handlers if h.type is not None and norm(h.type) == "CklRuntimeError"]
    ctx.check("C05.handler", nb, t, len(hs) == 1 and len(t.handlers) == 1,
              "the block does not have exactly one handler, for CklRuntimeError", expr="handlers",
              site="NodeBlock.evaluate: one handler, for CklRuntimeError")
    if len(hs) != 1:
        return
    h = hs[0]
    evar = h.name
    body = h.body
    ok = len(body) == 2 and isinstance(body[0], ast.For) and isinstance(body[1], ast.Raise) and body[1].exc is None
    ctx.check("C05.handler", nb, h, ok,
              "handler is not `for <clause> in self.catchexprs: ...` followed by a bare `raise`: an unmatched error "
              "must continue outward unchanged", expr="handler shape",
              site="NodeBlock.evaluate: clauses in order, then bare raise")
    if not ok:
        return
    lp = body[0]
    ctx.check("C05.handler", nb, lp, norm(lp.iter) == "self.catchexprs",
              "catch clauses are not tried in list order over self.catchexprs", site="clauses in list order")
    tgt = [norm(x) for x in lp.target.elts] if isinstance(lp.target, ast.Tuple) else []
    ok = len(tgt) == 2
    if ok:
        from ..partial import prune
        err, expr = tgt
        envp = nb.params[1]
        eq_forms = (f"{evar}.value == {err}.evaluate({envp})", f"{err}.evaluate({envp}) == {evar}.value")

        def outcome(has_value, equal):
            """what one iteration does for a clause with / without a catch value whose comparison gives `equal`
            (None: the comparison must not be needed)"""
            known = {err: has_value, f"{err} is None": not has_value, f"{err} is not None": has_value}
            if equal is not None:
                for t_ in eq_forms:
                    known[t_] = equal
            stmts, _ = prune(lp.body, known)
            for st in stmts:
                if isinstance(st, ast.Return):
                    return "handler" if norm(st.value) == f"{expr}.evaluate({envp})" else "other"
                if isinstance(st, (ast.If, ast.For, ast.While, ast.Try, ast.Raise, ast.Break, ast.Continue)):
                    return "undecided"
            return "next"

        got = (outcome(False, None), outcome(True, True), outcome(True, False))
        ok = got == ("handler", "handler", "next")
    ctx.check("C05.handler", nb, lp.body[0] if lp.body else lp, ok,
              "a clause is not selected by `not err or e.value == err.evaluate(environment)` (value equality, "
              "evaluated when the error arrives) with the clause's result returned",
              site="clause matches by == on the freshly evaluated catch value; first match returns its result")
    # parser side: clauses are appended in source order as [err, expr]
    ac = model.method(P, "NodeBlock", "addCatch")
    ok = norm(ac.node.body[-1]) == "self.catchexprs.append([err, expr])"
    ctx.check("C05.handler", ac, None, ok, "addCatch does not append [err, expr] in order", expr="addCatch",
              site="NodeBlock.addCatch: appends [err, expr]")
    # clauses are hung only on the block being parsed, and a block with clauses is never replaced by its content
    n_add = 0
    for f in model.all_funcs(True):
        for c in ast.walk(f.node):
            if not (isinstance(c, ast.Call) and isinstance(c.func, ast.Attribute) and c.func.attr in ("addCatch", "addFinally")):
                continue
            recv = c.func.value
            defs = [a for a in ast.walk(f.node) if isinstance(a, ast.Assign) and isinstance(recv, ast.Name)
                    and any(isinstance(t, ast.Name) and t.id == recv.id for t in a.targets)]
            ok = isinstance(recv, ast.Name) and len(defs) == 1 and isinstance(defs[0].value, ast.Call) \
                and norm(defs[0].value.func) == "NodeBlock"
            n_add += 1
            ctx.check("C05.handler", f, c, ok,
                      f"`{norm(c)[:60]}`: a catch / finally clause is attached to a block other than the one this "
                      f"function is building: handlers of different blocks end up side by side and no longer protect "
                      f"each other", site=f"{f.qual}: {c.func.attr} on the block under construction")
    if n_add < 2:
        ctx.broken("parser.py", "addCatch / addFinally calls not found")
    pb = model.func(P, "parser", "parse_block")
    from .common import resolve_static_call

    def unwrap_checked(func, blocks, depth=0):
        """every return of something other than the block itself happens where the block has no catch / finally"""
        g_ = CFG(func.node, implicit_exc=False)
        f_ = must_facts(g_)
        for node in g_.nodes:
            if node.kind != "return" or node.ast.value is None:
                continue
            v = node.ast.value
            if isinstance(v, ast.Name) and v.id in blocks:
                continue
            have = f_.get(node.id, frozenset())
            ok = all(any(t == f"{b}.{q}()" and not pol for t, pol in have) for b in blocks
                     for q in ("hasFinally", "hasCatch"))
            if not ok and isinstance(v, ast.Call) and depth < 2:
                callee = resolve_static_call(model, func, v)
                passed = [i for i, a in enumerate(v.args) if isinstance(a, ast.Name) and a.id in blocks]
                if callee is not None and passed:
                    cps = callee.params
                    unwrap_checked(callee, {cps[i] for i in passed if i < len(cps)}, depth + 1)
                    continue
            ctx.check("C05.handler", func, node.ast, ok,
                      f"{func.qual} returns `{norm(v)[:50]}` instead of the block it was building on a path where the "
                      f"block may have catch or finally clauses",
                      site=f"{func.qual}: a block is replaced by its only statement only when it has no catch and no "
                           f"finally")

    blocks = {a.targets[0].id for a in ast.walk(pb.node) if isinstance(a, ast.Assign) and isinstance(a.targets[0], ast.Name)
              and isinstance(a.value, ast.Call) and norm(a.value.func) == "NodeBlock"}
    if not blocks:
        ctx.broken("parse_block", "the block under construction was not found")
    unwrap_checked(pb, blocks)
    for fld in ("catchexprs", "finallyexprs"):
        for f in model.all_funcs(True):
            if f.cls is not None and f.cls.name == "NodeBlock":
                continue
            for x in ast.walk(f.node):
                if isinstance(x, ast.Attribute) and x.attr == fld:
                    par_store = isinstance(x.ctx, ast.Store)
                    mut = any(isinstance(c, ast.Call) and isinstance(c.func, ast.Attribute) and c.func.value is x
                              and c.func.attr in MUTATORS for c in ast.walk(f.node))
                    sub = any(isinstance(sb, ast.Subscript) and sb.value is x and isinstance(sb.ctx, (ast.Store, ast.Del))
                              for sb in ast.walk(f.node))
                    ctx.check("C05.handler", f, x, not (par_store or mut or sub),
                              f"{f.qual} writes a block's `{fld}` from outside NodeBlock",
                              site=f"{f.qual}: reads {fld} only")
    ne = model.method(P, "NodeError", "evaluate")
    r = [n for n in ast.walk(ne.node) if isinstance(n, ast.Raise)]
    ok = len(r) == 1 and isinstance(r[0].exc, ast.Call) and norm(r[0].exc.func) == "CklRuntimeError" \
        and norm(r[0].exc.args[0]) == "value" and "value = self.expression.evaluate(environment)" in norm(ne.node)
    ctx.check("C05.error", ne, None, ok, "`error v` does not raise CklRuntimeError with the evaluated value first",
              expr="NodeError raise", site="NodeError.evaluate: raise CklRuntimeError(<evaluated value>, ..)")
    ctx.check("C05.error", ne, None, ok and len(r[0].exc.args) == 3 and norm(r[0].exc.args[2]) == "self.pos",
              "`error v` loses its position", expr="NodeError pos", site="NodeError.evaluate: position passed")


# --------------------------------------------------------------------------------------------------
MUTATORS = {"append", "extend", "insert", "remove", "pop", "clear", "sort", "update", "add", "discard",
            "setdefault", "popitem", "reverse", "__setitem__"}


def nodestate(ctx, model):
    nodes = model.module(P, "nodes")
    for c in sorted(nodes.classes.values(), key=lambda c: c.name):
        m = c.methods.get("evaluate")
        if m is None:
            continue
        bad = []
        for n in ast.walk(m.node):
            tg = []
            if isinstance(n, ast.Assign):
                tg = n.targets
            elif isinstance(n, (ast.AugAssign, ast.AnnAssign)):
                tg = [n.target]
            elif isinstance(n, ast.Delete):
                tg = n.targets
            for t in tg:
                for x in ast.walk(t):
                    if isinstance(x, ast.Attribute) and isinstance(x.value, ast.Name) and x.value.id == "self":
                        bad.append((n, f"writes self.{x.attr}"))
                    if isinstance(x, ast.Subscript) and norm(x.value).startswith("self."):
                        bad.append((n, f"stores into {norm(x.value)}"))
            if isinstance(n, ast.Call) and isinstance(n.func, ast.Attribute) and n.func.attr in MUTATORS \
                    and norm(n.func.value).startswith("self."):
                bad.append((n, f"mutates {norm(n.func.value)}"))
        ctx.ob("C05.nodestate", f"{c.name}.evaluate: keeps no state in the syntax tree", not bad,
               "; ".join(w for _, w in bad))
        for n, w in bad:
            ctx.fail("C05.nodestate", m, n, f"{c.name}.evaluate {w}: the node is shared by every evaluation of this "
                     f"piece of program text (calls, iterations, recursion), so a later evaluation sees state "
                     f"left by an earlier one")


# --------------------------------------------------------------------------------------------------
def _can_catch_runtime(h):
    if h.type is None:
        return True
    names = [norm(x) for x in (h.type.elts if isinstance(h.type, ast.Tuple) else [h.type])]
    return any(n in ("CklRuntimeError", "Exception", "BaseException") for n in names)


_ENGINE = {}


def _plain_renderings(model, f):
    """ids of str()/f-string sites in `f` whose operand is known to be a host scalar (no __repr__ of ours runs)."""
    if "e" not in _ENGINE:
        _ENGINE["e"] = Engine(model)
    ip = _ENGINE["e"].interp(f)
    ok = set()
    plain = {"str", "int", "float", "bool", "None"}
    for ev in ip.events:
        if ev.kind == "format":
            (v,) = ev.data
            if known(v) and v.types <= plain:
                ok.add(id(ev.node))
        elif ev.kind == "call" and norm(ev.data[0]) in ("str", "repr", "format") and ev.data[1]:
            v = ev.data[1][0]
            if known(v) and v.types <= plain:
                ok.add(id(ev.node))
    return ok


def transparent(ctx, model):
    cg = CallGraph(model, repr_dispatch=True)
    raising = {}      # Func -> has an explicit non-bare raise

    def explicit_raises(f):
        if f not in raising:
            raising[f] = [n for n in ast.walk(f.node) if isinstance(n, ast.Raise) and n.exc is not None]
        return raising[f]

    n_handlers = 0
    for f in model.all_funcs(True):
        for t in [n for n in ast.walk(f.node) if isinstance(n, ast.Try)]:
            for hi, h in enumerate(t.handlers):
                n_handlers += 1
                site = f"{f.qual}: except {norm(h.type) if h.type else ''}"
                if not _can_catch_runtime(h):
                    ctx.ob("C05.transparent", site + " [cannot catch a language error]", True)
                    continue
                # an earlier clause of the same try that re-raises CklRuntimeError shields this one
                shielded = False
                for prev in t.handlers[:hi]:
                    if prev.type is not None and norm(prev.type) == "CklRuntimeError" and len(prev.body) == 1 \
                            and isinstance(prev.body[0], ast.Raise) and prev.body[0].exc is None:
                        shielded = True
                if shielded:
                    ctx.ob("C05.transparent", site + " [language errors re-raised by the preceding clause]", True)
                    continue
                if f.module.name in ("run", "repl"):
                    ctx.ob("C05.transparent", site + " [host front end: outermost handler]", True)
                    continue
                if f.qual == "NodeBlock.evaluate":
                    ctx.ob("C05.transparent", site + " [the catch mechanism itself, see C05.handler]", True)
                    continue
                # does the try body reach user-code evaluation?
                body_fn = _wrap(t.body, f)
                user = _reaches_user_code(cg, body_fn, f)
                reraises = _always_reraises(h)
                if not user:
                    ctx.ob("C05.transparent", site + " [try body runs no program code]", True)
                    continue
                ctx.ob("C05.transparent", site + " [around program code]", reraises,
                       "" if reraises else "rewrites the error")
                if not reraises:
                    ctx.fail("C05.transparent", f, h,
                             f"this handler catches language errors raised by program code it runs ({user}) and "
                             f"does not re-raise them unchanged: an enclosing `catch` for the program's own error "
                             f"value never sees it", expr=f"except {norm(h.type) if h.type else ''} in {f.qual}")
                else:
                    unwind(ctx, cg, f, h, explicit_raises)
    if n_handlers < 40:
        ctx.broken("except clauses", f"only {n_handlers} found")


def _wrap(stmts, f):
    fn = ast.FunctionDef(name="_try_body", args=f.node.args, body=stmts, decorator_list=[], returns=None,
                         type_comment=None, lineno=1, col_offset=0)
    if hasattr(ast, "TypeVar"):
        fn.type_params = []
    from ..core import Func
    return Func(f.module, f.cls, fn)


def _reaches_user_code(cg, body_fn, f):
    """Name of a user-code entry reached from the try body (direct or through repo helpers), or ''."""
    for r in cg.refs(body_fn):
        if r.kind in ("dispatch", "selfcall") and r.target in USER_CODE and r.is_call:
            return f".{r.target}()"
        if r.kind == "localcall":
            return f"{r.target}() (callback)"
    seen = cg.reach([body_fn], dispatch_filter=lambda m, c: m not in ("__repr__", "__str__"))
    for g in seen:
        if g is body_fn:
            continue
        if g.name in ("evaluate", "execute", "interpret") and g.cls is not None:
            return g.qual
    # rendering a program value runs the program's own `_str_` member when the value is an object: conversions to
    # string of an arbitrary value (asString / getAsString / string natives) reach it
    for r in cg.refs(body_fn):
        if r.is_call and r.kind in ("dispatch", "selfcall") and r.target in ("asString", "getAsString"):
            return f".{r.target}() (renders a program value: an object's _str_ member is program code)"
    return ""


def _always_reraises(h):
    """Every path through the handler body ends in a bare `raise`."""
    fn = ast.FunctionDef(name="_h", args=ast.arguments(posonlyargs=[], args=[], kwonlyargs=[], kw_defaults=[],
                                                       defaults=[], vararg=None, kwarg=None),
                         body=h.body, decorator_list=[], returns=None, type_comment=None, lineno=1, col_offset=0)
    if hasattr(ast, "TypeVar"):
        fn.type_params = []
    g = CFG(fn, implicit_exc=False)
    if g.pred.get(g.exit.id):
        return False
    for lbl, p in g.pred.get(g.raise_exit.id, []):
        if not (isinstance(p.ast, ast.Raise) and p.ast.exc is None):
            return False
    return True


def unwind(ctx, cg, f, h, explicit_raises):
    """Statements of a re-raising handler must not be able to raise a different error."""
    pre = [s for s in h.body if not (isinstance(s, ast.Raise) and s.exc is None)]
    # a nested try whose handler catches language errors and does not raise shields its body
    shielded = []
    for s_ in pre:
        if isinstance(s_, ast.Try) and not s_.finalbody and any(
                _can_catch_runtime(hh) and not any(isinstance(x, ast.Raise) for x in ast.walk(hh))
                for hh in s_.handlers):
            shielded.extend(hh_stmt for hh in s_.handlers for hh_stmt in hh.body)
            shielded.extend(s_.orelse)
        else:
            shielded.append(s_)
    pre = shielded
    if not pre:
        ctx.ob("C05.unwind", f"{f.qual}: handler is a bare re-raise", True)
        return
    body_fn = _wrap(pre, f)

    def offence(g):
        if g is body_fn:
            return None
        rs = explicit_raises(g)
        if rs:
            return rs[0]
        for r in cg.refs(g):
            if r.kind == "dispatch" and r.target in ("execute", "evaluate") and r.is_call:
                return ast.Raise(exc=ast.Name(id="<any error raised by program code it runs>"))
        return None

    # program code (execute/evaluate) is not followed, and the search stops at the first offender on a path:
    # a function that raises or runs program code is reported itself, not everything behind it
    plain_cache = {body_fn: _plain_renderings(ctx.model, f)}

    def skip(g, r):
        if not (r.kind == "dispatch" and r.target in ("__repr__", "__str__")):
            return False
        if g not in plain_cache:
            try:
                plain_cache[g] = _plain_renderings(ctx.model, g)
            except Exception:
                plain_cache[g] = set()
        return id(r.node) in plain_cache[g]

    seen = cg.reach([body_fn], dispatch_filter=lambda m, c: m not in ("execute", "evaluate"),
                    stop=lambda g: offence(g) is not None, skip_ref=skip)
    offenders = [(g, offence(g)) for g in seen if offence(g) is not None]
    ctx.ob("C05.unwind", f"{f.qual}: bookkeeping before the re-raise cannot raise ({len(seen)} functions reached)",
           not offenders, ", ".join(g.qual for g, _ in offenders[:5]))
    for g, r in offenders:
        ctx.fail("C05.unwind", f, h,
                 f"while a language error is unwinding, this handler runs code that can raise a different error "
                 f"(`{norm(r.exc)[:60]}` in {g.qual}, path {CallGraph.path_to(seen, g)}): the error in flight "
                 f"would be replaced", expr=f"{f.qual} handler -> {g.qual}")


# --------------------------------------------------------------------------------------------------
def errshape(ctx, model):
    engine = Engine(model)
    n = 0
    for f in model.all_funcs():
        if not any(isinstance(x, ast.Call) and norm(x.func) == "CklRuntimeError" for x in ast.walk(f.node)):
            continue
        ip = engine.interp(f)
        for ev in ip.events:
            if ev.kind != "call":
                continue
            fn, args, kwargs = ev.data
            if norm(fn) != "CklRuntimeError":
                continue
            n += 1
            call = ev.node
            ok = len(call.args) >= 2
            why = "fewer than two arguments"
            if ok:
                a0, a1 = args[0], args[1]
                if known(a0) and not all(engine.cfg.is_value(t) for t in a0.types):
                    ok = False
                    why = f"first argument (the error value) can be {sorted(a0.types)[:4]}, not a language value"
                elif known(a1) and not a1.types <= {"str"}:
                    ok = False
                    why = f"second argument (the message) can be {sorted(a1.types)[:4]}, not a host string"
            ctx.check("C05.errshape", f, call, ok, f"malformed runtime error: {why}")
    if n < 100:
        ctx.broken("CklRuntimeError constructions", f"only {n} typed")
