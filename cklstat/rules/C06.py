"""C06 - Equality is an equivalence that set membership and map lookup respect.

Decided statically on the value classes (one table row per class, extracted from the AST):
  C06.pair     every class that defines __eq__ defines __hash__ in the same class
  C06.guard    structural __eq__ starts with a same-kind guard returning False; identity __eq__ is `self is other`
  C06.proj     __hash__ is a function of exactly the projection __eq__ compares (or a constant); for payloads
               that are host sets / dicts the hash combines the elements with an order-insensitive reducer
               and never goes through an ordering or a rendering; kinds that can be equal to each other
               (int / decimal) share one hash expression
  C06.exact    the int -> decimal promotion used by == and < keeps the exact integer payload (no float()),
               so ints beyond 2^53 are not rounded before they are compared
  C06.selfcall no __eq__ applies == / != to its own two parameters (unbounded mutual recursion)
  C06.payload  sets and maps are host hash containers keyed by the value objects; container equality,
               membership and removal go through those payloads
  C06.natives  equals / not_equals / `in` / remove / list difference compare with == / != on the values and
               never on renderings
Not decided: the equivalence laws over runtime values as such (pairs and triples of values).
"""
import ast

from ..core import norm

P = "C06"
EXPLANATION = __doc__
TECHNIQUE = "per-class extraction of the __eq__ / __hash__ projections and sibling cross-check over the value " \
            "class hierarchy"
LEVEL_TEXT = (
    "Static cross-check of the separately written __eq__ and __hash__ methods of every value class: decides that "
    "they are paired, guard on the kind, project onto the same data, hash unordered payloads order-insensitively, "
    "agree across the int/decimal kinds, never recurse into each other and that the container operations use "
    "host hashing/equality on these objects. These are necessary conditions for 'equal values are interchangeable "
    "as set elements and map keys' for all values; the algebraic laws over concrete values are not executed.")
LEVEL_NOTE = "Trusted: CPython's guarantee hash(1) == hash(1.0) and exact int/float comparison; the class-shape extractor."
ASSUMPTIONS = ["float payloads are not NaN"]
FLOORS = {"C06.pair": 17, "C06.guard": 17, "C06.proj": 17, "C06.selfcall": 17, "C06.payload": 6, "C06.natives": 5,
          "C06.exact": 3}

UNORDERED = {"ValueSet": "set", "ValueMap": "dict", "ValueObject": "dict"}
ORDER_OR_RENDER = {"sorted", "tuple", "list", "str", "repr", "format", "getSortedKeys", "getSortedItems", "join"}


def value_classes(ctx):
    vs = [c for c in ctx.model.module(P, "values").classes.values()
          if any(k.name == "Value" for k in ctx.model.mro(c)[1:])]
    if len(vs) < 17:
        ctx.broken("values.py", f"only {len(vs)} value classes found")
    return sorted(vs, key=lambda c: c.name)


def classify_eq(cls, m):
    """-> (kind, detail): identity | structural(field) | numeric | rendered | unknown.
    Works on the decision list of the method (which outcomes are returned under which branch facts), so a guard with
    early return, the inverted guard with the comparison nested, and if/else forms are the same thing."""
    from .common import decision_list
    params = m.params
    if len(params) != 2:
        return "unknown", "signature"
    other = params[1]
    dl = decision_list(m.node)
    if not dl:
        return "unknown", "not a decision list"
    if len(dl) == 1 and not dl[0][0]:
        t = norm(dl[0][1])
        if t in (f"self is {other}", f"{other} is self"):
            return "identity", ""
        if t == f"{other} is NULL":
            return "identity", "singleton"
    for atom, kind in ((f"isinstance({other}, {cls.name})", "structural"), (f"{other}.isNumerical()", "numeric")):
        neg = [r for facts, r in dl if (atom, False) in facts]
        pos = [r for facts, r in dl if (atom, True) in facts]
        if not neg or not pos or len(neg) + len(pos) != len(dl):
            continue
        if not all(norm(r) == "False" for r in neg):
            return "unknown", f"a value outside the kind guard `{atom}` is not simply unequal"
        if kind == "numeric":
            return "numeric", ""
        if len(pos) == 1 and isinstance(pos[0], ast.Compare) and len(pos[0].ops) == 1 \
                and isinstance(pos[0].ops[0], ast.Eq):
            l, r = norm(pos[0].left), norm(pos[0].comparators[0])
            if l.startswith(other + "."):
                l, r = r, l
            if l.startswith("self.") and r == other + l[4:]:
                return "structural", l[5:]
            if l.startswith("str(self.") and r == f"str({other}.{l[9:]}":
                return "rendered", l[9:-1]
        return "unknown", "body after isinstance guard"
    return "unknown", "no recognised guard"


def hash_info(m):
    """-> (kind, detail): const | field(name) | reduce(field) | other(text)"""
    last = m.node.body[-1]
    if not (len(m.node.body) == 1 and isinstance(last, ast.Return)):
        return "other", norm(m.node)[:80]
    v = last.value
    t = norm(v)
    names = {norm(n) for n in ast.walk(v) if isinstance(n, ast.Attribute) and isinstance(n.value, ast.Name)
             and n.value.id == "self"}
    calls = {norm(n.func).split(".")[-1] for n in ast.walk(v) if isinstance(n, ast.Call)}
    if not names and not any(isinstance(n, ast.Name) and n.id == "self" for n in ast.walk(v)):
        return "const", t
    if isinstance(v, ast.Call) and norm(v.func) == "hash" and len(v.args) == 1 and norm(v.args[0]).startswith("self.") \
            and isinstance(v.args[0], ast.Attribute):
        return "field", norm(v.args[0])[5:]
    if isinstance(v, ast.Call) and norm(v.func) == "sum" and len(v.args) == 1 and isinstance(v.args[0], ast.GeneratorExp):
        gen = v.args[0]
        src = norm(gen.generators[0].iter)
        if src in ("self.value", "self.value.items()") and not (calls - {"sum", "hash", "items"}):
            return "reduce", "value"
    if isinstance(v, ast.Call) and norm(v.func) == "hash" and t == "hash(repr(self))":
        return "render-self", t
    return "other", t


def run(ctx):
    model = ctx.model
    classes = value_classes(ctx)
    table = {}
    for c in classes:
        eq, hs, lt = c.methods.get("__eq__"), c.methods.get("__hash__"), c.methods.get("__lt__")
        if c.name == "Value":
            continue
        inherits_eq = eq is None
        if inherits_eq:
            # function subclasses inherit identity equality from ValueFunc
            base_eq = model.find_method(c, "__eq__")
            ctx.ob("C06.pair", f"{c.name}: inherits __eq__/__hash__ from {base_eq.cls.name if base_eq else '?'}",
                   base_eq is not None and model.find_method(c, "__hash__") is not None
                   and model.find_method(c, "__hash__").cls is base_eq.cls)
            continue
        ctx.check("C06.pair", eq, None, hs is not None,
                  f"{c.name} defines __eq__ without __hash__: instances become unhashable or hash by identity while "
                  f"comparing by value", expr=f"{c.name}.__eq__/__hash__", site=f"{c.name}: __eq__ and __hash__ defined together")
        ekind, edetail = classify_eq(c, eq)
        table[c.name] = (ekind, edetail)
        ctx.check("C06.guard", eq, None, ekind != "unknown",
                  f"{c.name}.__eq__ has no recognised shape ({edetail}): expected identity (`self is other`), a "
                  f"same-kind guard returning False followed by a comparison of one field, or the numeric form",
                  expr=f"{c.name}.__eq__ shape", site=f"{c.name}.__eq__: {ekind} {edetail}")
        # selfcall
        other = eq.params[1] if len(eq.params) == 2 else "other"
        bad = False
        for n in ast.walk(eq.node):
            if isinstance(n, ast.Compare) and any(isinstance(o, (ast.Eq, ast.NotEq)) for o in n.ops):
                sides = [norm(n.left)] + [norm(x) for x in n.comparators]
                if "self" in sides and other in sides:
                    bad = True
        ctx.check("C06.selfcall", eq, None, not bad,
                  f"{c.name}.__eq__ applies == to its own two parameters: comparing two such values recurses without "
                  f"bound", expr=f"{c.name}.__eq__ self-dispatch", site=f"{c.name}.__eq__: no == between self and other")
        if hs is None:
            continue
        hkind, hdetail = hash_info(hs)
        ok, why = True, ""
        if ekind == "structural":
            if hkind == "field":
                ok = hdetail == edetail
                why = f"hashes self.{hdetail} but compares self.{edetail}"
            elif hkind == "reduce":
                ok = edetail == "value"
                why = "hash reduces another field than the one compared"
            elif hkind == "const":
                ok = True
            else:
                ok = False
                why = f"hash expression `{hdetail}` is not a function of the compared field self.{edetail}"
        elif ekind == "numeric":
            ok = hkind == "field" and hdetail == "value"
            why = f"numeric kinds must hash `hash(self.value)` (got {hkind} {hdetail})"
        elif ekind == "rendered":
            ok = hkind == "const"
            why = "equality by rendering needs a constant hash"
        elif ekind == "identity":
            ok = hkind in ("const", "field", "render-self")
            why = f"hash `{hdetail}` of an identity-compared class"
        if ok and c.name in UNORDERED:
            used = {norm(n.func).split(".")[-1] for n in ast.walk(hs.node) if isinstance(n, ast.Call)}
            if used & ORDER_OR_RENDER:
                ok = False
                why = (f"the hash of an unordered payload goes through {sorted(used & ORDER_OR_RENDER)}: equal "
                       f"containers built in different orders can hash differently (the cross-kind order is not "
                       f"total)")
            elif hkind not in ("reduce", "const"):
                ok = False
                why = "the hash of an unordered payload must be an order-insensitive reduction (sum of element hashes)"
        ctx.check("C06.proj", hs, None, ok,
                  f"{c.name}: __hash__ does not agree with __eq__: {why}", expr=f"{c.name}.__hash__ = {hdetail}",
                  site=f"{c.name}: eq {ekind}({edetail}) / hash {hkind}({hdetail[:40]})")
    # cross-kind classes share one hash expression
    numeric = [n for n, (k, _) in table.items() if k == "numeric"]
    ctx.check("C06.proj", "values.py", None, sorted(numeric) == ["ValueDecimal", "ValueInt"],
              f"classes with numeric (cross-kind) equality are {sorted(numeric)}, expected ValueDecimal and ValueInt",
              expr="numeric classes", site="cross-kind equality: exactly ValueInt and ValueDecimal")
    hashes = {n: norm(model.classes[n].methods["__hash__"].node.body[-1]) for n in numeric
              if "__hash__" in model.classes[n].methods}
    ctx.check("C06.proj", "values.py", None, len(set(hashes.values())) == 1,
              f"int and decimal hash differently ({hashes}) although 1 == 1.0", expr="numeric hashes",
              site="ValueInt / ValueDecimal: identical hash expression")

    # ---------------------------------------------------------------- exact promotion
    vi = model.cls(P, "ValueInt")
    ad = vi.methods.get("asDecimal")
    ok = ad is not None and norm(ad.node.body[-1]) == "return ValueDecimal(self.value)"
    ctx.check("C06.exact", ad or vi, None, ok,
              "ValueInt.asDecimal converts the payload (e.g. float(self.value)): == and < between an int beyond 2^53 "
              "and a decimal compare a rounded value, so equality stops being transitive and disagrees with the hash",
              expr="ValueInt.asDecimal", site="ValueInt.asDecimal: payload passed unchanged")
    for cname in ("ValueInt", "ValueDecimal"):
        for mname in ("__eq__", "__lt__"):
            m = model.method(P, cname, mname)
            bad = [n for n in ast.walk(m.node) if isinstance(n, ast.Call) and norm(n.func) in ("float", "int", "round")]
            ctx.check("C06.exact", m, None, not bad, f"{cname}.{mname} converts a payload before comparing",
                      expr=f"{cname}.{mname} conversions", site=f"{cname}.{mname}: compares payloads without conversion")

    # ---------------------------------------------------------------- payloads
    for cname, host in (("ValueSet", "set()"), ("ValueMap", "dict()"), ("ValueObject", "dict()"), ("ValueList", "[]")):
        init = model.method(P, cname, "__init__")
        ok = any(norm(s) == f"self.value = {host}" for s in init.node.body)
        ctx.check("C06.payload", init, None, ok, f"{cname} payload is not a host {host}", expr=f"{cname} payload",
                  site=f"{cname}.__init__: self.value = {host}")
    for cname, mname, want in (("ValueSet", "hasItem", "return item in self.value"),
                               ("ValueMap", "hasItem", "return key in self.value"),
                               ("ValueSet", "addItem", "self.value.add(item)"),
                               ("ValueSet", "removeItem", "self.value.remove(item)"),
                               ("ValueMap", "removeItem", "del self.value[key]"),
                               ("ValueList", "removeItem", "self.value.remove(item)"),
                               ("ValueMap", "getItem", "return self.value[key]")):
        m = model.method(P, cname, mname)
        item = m.params[1] if len(m.params) > 1 else None
        # the element reaches the host container's own lookup (which uses __hash__ / __eq__): an `in` test, a
        # subscript, or add / remove / discard / pop / get on self.value with the element as argument - and nothing
        # in the method scans the container or compares renderings instead
        direct = False
        for n in ast.walk(m.node):
            if isinstance(n, ast.Compare) and len(n.ops) == 1 and isinstance(n.ops[0], (ast.In, ast.NotIn)) \
                    and norm(n.left) == item and norm(n.comparators[0]) == "self.value":
                direct = True
            if isinstance(n, ast.Subscript) and norm(n.value) == "self.value" and norm(n.slice) == item:
                direct = True
            if isinstance(n, ast.Call) and isinstance(n.func, ast.Attribute) and norm(n.func.value) == "self.value" \
                    and n.func.attr in ("add", "remove", "discard", "pop", "get", "index", "count") and n.args \
                    and norm(n.args[0]) == item:
                direct = True
        scans = any(isinstance(n, (ast.For, ast.While, ast.ListComp, ast.SetComp, ast.DictComp, ast.GeneratorExp))
                    for n in ast.walk(m.node))
        renders = any(isinstance(n, ast.Call) and norm(n.func) in ("str", "repr", "format") for n in ast.walk(m.node))
        ok = direct and not scans and not renders
        ctx.check("C06.payload", m, None, ok, f"{cname}.{mname} does not operate on the hash container directly "
                  f"(as in `{want}`): a scan or a comparison of renderings would not agree with == and the hash",
                  expr=f"{cname}.{mname}", site=f"{cname}.{mname}: element looked up by the host container itself")

    # ---------------------------------------------------------------- natives
    for cname, op in (("FuncEquals", ast.Eq), ("FuncNotEquals", ast.NotEq)):
        m = model.method(P, cname, "execute")
        cmps = [n for n in ast.walk(m.node) if isinstance(n, ast.Compare)]
        ok = len(cmps) == 1 and isinstance(cmps[0].ops[0], op) and {norm(cmps[0].left), norm(cmps[0].comparators[0])} == {"a", "b"}
        ctx.check("C06.natives", m, None, ok, f"{cname} does not compare its two arguments with {op.__name__}",
                  expr=f"{cname}", site=f"{cname}.execute: a {op.__name__} b")
    for qual in (("NodeIn", "evaluate"), ("FuncRemove", "execute"), ("FuncSub", "execute"), ("FuncEquals", "execute"),
                 ("FuncNotEquals", "execute"), ("ValueList", "findItem")):
        m = model.method(P, *qual)
        bad = [n for n in ast.walk(m.node) if isinstance(n, ast.Call) and norm(n.func) in ("str", "repr", "format")]
        bad += [n for n in ast.walk(m.node) if isinstance(n, ast.JoinedStr) and not _in_raise(m.node, n)]
        ctx.check("C06.natives", m, None, not bad,
                  f"{m.qual} renders values (str/repr) on a path that decides equality or membership",
                  expr=f"{m.qual} renderings", site=f"{m.qual}: decides membership/equality without rendering")
    ni = model.method(P, "NodeIn", "evaluate")
    t = norm(ni.node)
    ok = "if value == item: return TRUE" in t.replace("\n", " ") and t.count("container.hasItem(value)") >= 2
    ctx.check("C06.natives", ni, None, ok, "`in` on lists/sets/maps does not go through == / hash lookup",
              expr="NodeIn membership", site="NodeIn.evaluate: list by ==, set/map by hash lookup")


def _in_raise(fn, node):
    for r in ast.walk(fn):
        if isinstance(r, ast.Raise) and any(x is node for x in ast.walk(r)):
            return True
    return False
