"""C07 - Comparison is a total order per kind and sorting agrees with it.

Decided statically:
  C07.deco     every value class carries functools.total_ordering and defines __lt__ and __eq__
  C07.boolret  every __lt__ returns a boolean-typed expression (comparison / not / and-or / constant /
               isinstance), never an arithmetic value
  C07.payload  for the kinds whose order the property defines (boolean, int, decimal, string, date, list,
               pattern) the same-kind branch of __lt__ compares the data payloads with `<` - not renderings;
               the cross-kind fallback (different kinds) is not constrained
  C07.compare  compare(a, b) is built from a < b and a > b
  C07.sorted   sorted works on a copy taken through the sorted-view conversion (args.getAsList), only
               exchanges adjacent elements, and only on a strict comparison (stability); key values are
               computed from the elements themselves, not looked up in a table keyed by language values
               (whose hashing identifies 1 with 1.0)
  C07.minmax   min / max in the core module compare keys with `<` / `>` only (first of equal elements wins) and
               scan the list once
  C07.views    the sorted enumeration views of sets and map keys are sorted(<payload>) under the values' own
               order (no key function, no shortcut by host type)
Not decided: transitivity for mixed int/decimal at large magnitude; min/max in core.ckl beyond using < and >.
"""
import ast

from ..core import norm
from ..kinds import Engine
from .common import known

P = "C07"
EXPLANATION = __doc__
TECHNIQUE = "per-class extraction of __lt__ shapes (same-kind region vs cross-kind fallback), structural check " \
            "of the insertion sort, kind inference for container keys"
LEVEL_TEXT = (
    "Static analysis of the ordering methods of every value class and of the natives built on them: decides that "
    "each kind is totally-ordered by construction of its __lt__ (boolean result, payload comparison in the same-"
    "kind region), that compare/sorted/sorted views are built only from that order, that sorted is a stable "
    "adjacent-exchange sort on a copy. These are necessary conditions of the order laws for all values of a "
    "kind; the laws themselves are not executed on values.")
LEVEL_NOTE = "Trusted: functools.total_ordering derives <=, >, >= from __lt__ and __eq__; Python's sorted() is stable."
ASSUMPTIONS = ["payload types are totally ordered by the host (<) for str/int/float/bool/datetime/list"]
FLOORS = {"C07.deco": 17, "C07.boolret": 17, "C07.payload": 7, "C07.compare": 1, "C07.sorted": 6, "C07.views": 2}

DEFINED = {"ValueBoolean", "ValueInt", "ValueDecimal", "ValueString", "ValueDate", "ValueList", "ValuePattern"}


def _bool_expr(e):
    if isinstance(e, ast.Compare):
        return True
    if isinstance(e, ast.UnaryOp) and isinstance(e.op, ast.Not):
        return True
    if isinstance(e, ast.BoolOp):
        return all(_bool_expr(v) for v in e.values)
    if isinstance(e, ast.Constant) and isinstance(e.value, bool):
        return True
    if isinstance(e, ast.Call) and norm(e.func) in ("isinstance", "bool"):
        return True
    return False


def _as_lt(e):
    """(left text, right text) if `e` means left < right: a < b, b > a, not (a >= b), not (b <= a)."""
    neg = False
    while isinstance(e, ast.UnaryOp) and isinstance(e.op, ast.Not):
        neg = not neg
        e = e.operand
    if not (isinstance(e, ast.Compare) and len(e.ops) == 1):
        return None
    a, b, op = norm(e.left), norm(e.comparators[0]), e.ops[0]
    if not neg:
        if isinstance(op, ast.Lt):
            return a, b
        if isinstance(op, ast.Gt):
            return b, a
    else:
        if isinstance(op, ast.GtE):
            return a, b
        if isinstance(op, ast.LtE):
            return b, a
    return None


def run(ctx):
    model = ctx.model
    values = model.module(P, "values")
    classes = sorted((c for c in values.classes.values() if any(k.name == "Value" for k in model.mro(c)[1:])),
                     key=lambda c: c.name)
    if len(classes) < 17:
        ctx.broken("values.py", f"only {len(classes)} value classes")
    for c in classes:
        deco = any(d in ("functools.total_ordering", "total_ordering") for d in c.decorators)
        lt, eq = c.methods.get("__lt__"), c.methods.get("__eq__")
        ctx.check("C07.deco", f"class {c.name}", None, deco and lt is not None and eq is not None,
                  f"{c.name} lacks total_ordering / __lt__ / __eq__: <=, > and >= would not be consistent with <",
                  expr=f"{c.name} ordering methods", site=f"{c.name}: @total_ordering with __lt__ and __eq__")
        if lt is None:
            continue
        other = lt.params[1] if len(lt.params) == 2 else "other"
        rets = [n for n in ast.walk(lt.node) if isinstance(n, ast.Return)]
        ok = bool(rets) and all(r.value is not None and _bool_expr(r.value) for r in rets)
        ctx.check("C07.boolret", lt, None, ok,
                  f"{c.name}.__lt__ returns a non-boolean expression "
                  f"({[norm(r.value) for r in rets if r.value is not None and not _bool_expr(r.value)]}): every "
                  f"non-zero value is truthy, so a < b and b < a can both hold", expr=f"{c.name}.__lt__ returns",
                  site=f"{c.name}.__lt__: boolean result")
        if c.name in ("ValueSet", "ValueMap", "ValueObject"):
            # payloads that are host sets / dicts: `<` between them is the proper-subset test (a partial order) or a
            # TypeError - never the total order that sorted views and canonical rendering need
            bad_ = [n for n in ast.walk(lt.node) if isinstance(n, ast.Compare) and len(n.ops) == 1
                    and isinstance(n.ops[0], (ast.Lt, ast.Gt, ast.LtE, ast.GtE))
                    and norm(n.left) in ("self.value", f"{other}.value")
                    and norm(n.comparators[0]) in ("self.value", f"{other}.value")]
            ctx.check("C07.payload", lt, bad_[0] if bad_ else None, not bad_,
                      f"{c.name}.__lt__ orders two values by the host comparison of their "
                      f"{'set' if c.name == 'ValueSet' else 'dict'} payloads: that is inclusion (incomparable sets are "
                      f"neither < nor >) or a TypeError, so sorting and the canonical rendering depend on insertion "
                      f"order", expr=f"{c.name}.__lt__ host payload order",
                      site=f"{c.name}.__lt__: no host `<` between set / dict payloads")
        if c.name in DEFINED:
            from .common import decision_list
            dl = decision_list(lt.node)
            if dl is None:
                ctx.broken(f"{c.name}.__lt__", "not a decision list (loops / too many paths)")
            atoms = (f"isinstance({other}, {c.name})", f"{other}.isNumerical()")
            atom = next((a for a in atoms if any((a, True) in f for f, r in dl)), None)
            same_kind = [(f, r) for f, r in dl if atom is not None and (atom, True) in f]
            guarded = atom is not None and all((atom, True) in f or (atom, False) in f for f, r in dl)
            bad = []
            mixed_ok = c.name != "ValueInt"
            for f, r in same_kind:
                lt_form = _as_lt(r)
                rendered = any(isinstance(n, ast.Call) and norm(n.func) in ("str", "repr", "format") for n in ast.walk(r))
                if lt_form is None or rendered:
                    bad.append(norm(r))
                    continue
                l, rr = lt_form
                if c.name == "ValueInt" and (f"isinstance({other}, ValueDecimal)", True) in f:
                    if l == "self.asDecimal()" and rr == other:
                        mixed_ok = True
                    else:
                        bad.append(norm(r))
                    continue
                if not (l == "self.value" and rr in (f"{other}.value", f"{other}.asDecimal().value")):
                    bad.append(norm(r))
            ctx.check("C07.payload", lt, None, guarded and bool(same_kind) and not bad,
                      f"{c.name}.__lt__: the same-kind branch does not compare the payloads with `<` "
                      f"(guard `{atom}`, result `{bad[0] if bad else ''}`)"
                      f": a rendering or other proxy does not order this kind as the language defines",
                      expr=f"{c.name}.__lt__ same-kind region", site=f"{c.name}.__lt__: payload comparison after kind guard")
            if c.name == "ValueInt":
                ctx.check("C07.payload", lt, None, mixed_ok, "ValueInt.__lt__: mixed int/decimal case changed",
                          expr="ValueInt mixed", site="ValueInt.__lt__: int vs decimal via asDecimal()")

    from .common import numeric_order_not_textual
    numeric_order_not_textual(ctx, model, P, "C07.payload")

    # ---------------------------------------------------------------- compare
    fc = model.method(P, "FuncCompare", "execute")
    from .common import decision_list
    dl = decision_list(fc.node)
    ok = False
    if dl:
        # outcomes by what was established about a < b / a > b on the path (any nesting or order of the tests)
        got = {}
        fine = True
        for facts_, ret in dl:
            lt = gt = None
            for t_, pol in facts_:
                try:
                    form = _as_lt(ast.parse(t_, mode="eval").body)
                except SyntaxError:
                    form = None
                if form == ("a", "b"):
                    lt = pol
                elif form == ("b", "a"):
                    gt = pol
            val = norm(ret)
            key_ = "lt" if lt else "gt" if gt else "eq" if (lt is False and gt is False) else None
            if key_ is None or got.setdefault(key_, val) != val:
                fine = False
        ok = fine and got == {"lt": "ValueInt(-1)", "gt": "ValueInt(1)", "eq": "ValueInt(0)"}
    ctx.check("C07.compare", fc, None, ok, "compare is not -1 for a < b, 1 for a > b, else 0",
              expr="compare body", site="FuncCompare.execute: built from < and >")

    # ---------------------------------------------------------------- sorted
    fs = model.method(P, "FuncSorted", "execute")
    src = norm(fs.node)
    binds = {norm(n.targets[0]): n.value for n in ast.walk(fs.node) if isinstance(n, ast.Assign)
             and isinstance(n.targets[0], ast.Name)}
    lst = binds.get("lst")
    ctx.check("C07.sorted", fs, lst, lst is not None and norm(lst) == "args.getAsList('lst')",
              "sorted does not obtain its input through args.getAsList('lst') (the sorted-view conversion for sets)",
              expr="sorted input", site="FuncSorted.execute: lst = args.getAsList('lst')")
    res = binds.get("result")
    ok = res is not None and norm(res) in ("lst.value[:]", "list(lst.value)", "lst.value.copy()")
    ctx.check("C07.sorted", fs, res, ok, "sorted does not work on a copy of the list payload",
              expr="sorted copy", site="FuncSorted.execute: result = lst.value[:]")
    # exchange guarded by a strict comparison
    # exchange guarded by a strict comparison, otherwise the scan stops (normal form: `if not (c < 0): break` and
    # then the exchange; the rule accepts the if/else spelling as well)
    ifs = [n for n in ast.walk(fs.node) if isinstance(n, ast.If) and "comparison" in norm(n.test) and not any(
        isinstance(x, ast.Raise) for x in ast.walk(n))]
    ok = len(ifs) == 1
    swap = []
    if ok:
        n_ = ifs[0]
        neg = isinstance(n_.test, ast.UnaryOp) and isinstance(n_.test.op, ast.Not)
        lt = _as_lt(n_.test.operand if neg else n_.test)
        ok = lt == ("comparison.value", "0")
        if ok and neg:
            ok = len(n_.body) == 1 and isinstance(n_.body[0], ast.Break) and not n_.orelse
            # the exchange is what follows in the same block
            for blk in ast.walk(fs.node):
                for fld in ("body", "orelse"):
                    lst_ = getattr(blk, fld, None)
                    if isinstance(lst_, list) and n_ in lst_:
                        swap = lst_[lst_.index(n_) + 1:]
        elif ok:
            ok = len(n_.orelse) == 1 and isinstance(n_.orelse[0], ast.Break)
            swap = n_.body
    ctx.check("C07.sorted", fs, ifs[0] if ifs else None, ok,
              "elements are exchanged on a non-strict comparison or the scan does not stop at the first "
              "non-smaller element: equal elements lose their original order", expr="exchange guard",
              site="FuncSorted.execute: exchange only if comparison < 0, else stop")
    if ok:
        ok2 = _adjacent_swap(swap, {"result[j]", "result[j + 1]"})
        ctx.check("C07.sorted", fs, ifs[0], ok2, "the exchange is not an adjacent swap of result[j] and result[j+1]",
                  expr="adjacent swap", site="FuncSorted.execute: adjacent swap")
    stores = [n for n in ast.walk(fs.node) if isinstance(n, (ast.Assign, ast.AugAssign, ast.Delete))
              for t_ in (n.targets if not isinstance(n, ast.AugAssign) else [n.target])
              if isinstance(t_, ast.Subscript)]
    ok = all(norm(t_.value) == "result" for n in stores
             for t_ in (n.targets if not isinstance(n, ast.AugAssign) else [n.target]) if isinstance(t_, ast.Subscript))
    ok = ok and "return ValueList().addItems(result)" in src
    ctx.check("C07.sorted", fs, None, ok, "sorted writes somewhere else than its working copy, or does not return a "
              "new list built from it", expr="sorted stores", site="FuncSorted.execute: only the copy is written; new list returned")
    # no table keyed by language values
    engine = Engine(model)
    ip = engine.interp(fs)
    bad = []
    for ev in ip.events:
        if ev.kind in ("subscript", "store_subscript") or (ev.kind == "compare"):
            pass
    for n in ast.walk(fs.node):
        if isinstance(n, (ast.Dict, ast.DictComp)) or (isinstance(n, ast.Call) and norm(n.func) in ("dict", "set")) \
                or isinstance(n, (ast.Set, ast.SetComp)):
            bad.append(n)
    ctx.check("C07.sorted", fs, bad[0] if bad else None, not bad,
              "sorted keeps a hash table (dict/set): language values hash by numeric value, so 1 and 1.0 (or equal "
              "keys of distinguishable elements) would share an entry", expr="hash table in sorted",
              site="FuncSorted.execute: no hash table keyed by values")
    cmpcalls = [n for n in ast.walk(fs.node) if isinstance(n, ast.Call) and norm(n.func) == "cmp.execute"]
    # key(x): key.execute(..x..) directly, or through a local helper that does just that with its parameter
    helpers = {}
    for d in ast.walk(fs.node):
        if isinstance(d, ast.FunctionDef) and d is not fs.node and len(d.args.args) == 1:
            inner = [n for n in ast.walk(d) if isinstance(n, ast.Call) and norm(n.func) == "key.execute"]
            if len(inner) == 1 and d.args.args[0].arg in {x.id for x in ast.walk(inner[0]) if isinstance(x, ast.Name)}:
                helpers[d.name] = {id(x) for x in ast.walk(d)}
    in_helper = set().union(*helpers.values()) if helpers else set()
    keycalls = [n for n in ast.walk(fs.node) if isinstance(n, ast.Call) and id(n) not in in_helper
                and (norm(n.func) == "key.execute" or isinstance(n.func, ast.Name) and n.func.id in helpers)]
    keycalls.sort(key=lambda n: (n.lineno, n.col_offset))
    ok = len(cmpcalls) == 1 and len(keycalls) == 2 and "result[i]" in norm(keycalls[0]) and "result[j]" in norm(keycalls[1])
    ctx.check("C07.sorted", fs, None, ok, "cmp is not applied to key(result[i]) and key(result[j]) computed on the spot",
              expr="cmp(key(x), key(y))", site="FuncSorted.execute: cmp(key(result[i]), key(result[j]))")

    minmax(ctx, model)
    # ---------------------------------------------------------------- sorted views
    for cname, mname, want in (("ValueSet", "getSortedItems", "return sorted(self.value)"),
                               ("ValueMap", "getSortedKeys", "return sorted(self.value.keys())")):
        m = model.method(P, cname, mname)
        ok = len(m.node.body) == 1 and norm(m.node.body[0]) in (want, want.replace(".keys()", ""))
        ctx.check("C07.views", m, None, ok,
                  f"{cname}.{mname} is not `{want[7:]}`: the enumeration order of sets / map keys must be the values' "
                  f"own order for every element kind", expr=f"{cname}.{mname}", site=f"{cname}.{mname}: {want[7:]}")
    _collection_views(ctx, model)


def _collection_views(ctx, model):
    from .common import collection_sources
    rows = collection_sources(model, P)
    if rows is None:
        ctx.broken("getCollectionValue", "kind tests / results not found")
    gcv = model.func(P, "nodes", "getCollectionValue")
    for kind, r, ok, t, by_value in rows:
        ctx.check("C07.views", gcv, r, ok,
                  f"comprehensions enumerate a {'set' if kind == 'isSet' else 'map'} through `{t[:70]}`, which is not "
                  f"the order of the sorted elements / keys", site=f"getCollectionValue ({kind[2:].lower()}): {t[:60]}")


def _adjacent_swap(stmts, pair):
    """the statements exchange exactly the two subscripts in `pair` (tuple assignment or through a temporary)"""
    if len(stmts) == 1 and isinstance(stmts[0], ast.Assign) and len(stmts[0].targets) == 1 \
            and isinstance(stmts[0].targets[0], ast.Tuple) and isinstance(stmts[0].value, ast.Tuple):
        t = [norm(x) for x in stmts[0].targets[0].elts]
        v = [norm(x) for x in stmts[0].value.elts]
        return len(t) == 2 and set(t) == pair and v == t[::-1]
    if len(stmts) == 3 and all(isinstance(x, ast.Assign) and len(x.targets) == 1 for x in stmts):
        (t0, v0), (t1, v1), (t2, v2) = [(norm(x.targets[0]), norm(x.value)) for x in stmts]
        return {v0, t2} <= pair and v0 != t2 and t1 == v0 and v1 == t2 and v2 == t0 and t0 not in pair
    return False


def minmax(ctx, model):
    """core.ckl min / max: the scan keeps the element whose key is strictly smaller / greater than the best so far
    (first of equal elements wins), compares keys with < / > only, and looks at every element."""
    from .. import cklsrc
    src = model.ckl_modules.get("core.ckl")
    if src is None:
        ctx.broken("modules/core.ckl", "missing")
    try:
        toks = cklsrc.tokenize(src[0])
        funcs = {f.name: f for f in cklsrc.functions(toks) if f.parent is None}
    except cklsrc.CklTokenError as e:
        ctx.broken("modules/core.ckl", str(e))
    for name, op in (("min", "<"), ("max", ">")):
        f = funcs.get(name)
        if f is None:
            ctx.broken(f"core.ckl {name}", "function not found")
        body = cklsrc.own_body(f)
        # comparisons between identifiers in the body
        cmps = [(body[i - 1].text, body[i].text, body[i + 1].text) for i in range(1, len(body) - 1)
                if body[i].kind == "p" and body[i].text in ("<", ">", "<=", ">=") and body[i - 1].kind in ("id", "p")]
        ops = {c[1] for c in cmps}
        ok = ops == {op}
        ctx.check("C07.minmax", f"modules/core.ckl:{name}", None, ok,
                  f"core.ckl {name} compares with {sorted(ops)} (expected only `{op}`): ties or the direction of the "
                  f"scan change, so {name} disagrees with the order on equal or reversed inputs",
                  expr=f"{name} comparison operators", site=f"modules/core.ckl: {name} uses only `{op}`")
        # what the scan keeps: `best key := the key just compared` and `best element := the element it came from`
        fi = next((i for i, t in enumerate(body) if t.is_id("for")), None)
        ok_keep = False
        why = "scan not understood"
        if fi is not None and fi + 1 < len(body):
            elem = body[fi + 1].text
            keyed = None
            for i in range(fi, len(body) - 6):
                if body[i].is_id("def") and body[i + 2].is_p("=") and body[i + 3].is_id("key") and body[i + 4].is_p("(") \
                        and body[i + 5].text == elem:
                    keyed = body[i + 1].text
            best = next((c[2] for c in cmps if c[0] == keyed), None) if keyed else None
            if keyed and best:
                assigns = {}
                for i in range(fi, len(body) - 3):
                    if body[i].kind == "id" and body[i + 1].is_p("=") and not body[i - 1].is_id("def") \
                            and body[i + 2].kind == "id" and body[i + 3].is_p(";"):
                        assigns.setdefault(body[i].text, set()).add(body[i + 2].text)
                items = [k for k, v in assigns.items() if v == {elem} and k != best]
                ok_keep = assigns.get(best) == {keyed} and len(items) == 1
                why = f"the loop keeps `{best} = {sorted(assigns.get(best, []))}` and element holder(s) {items} " \
                      f"(expected `{best} = {keyed}` and exactly one `<holder> = {elem}`)"
                if ok_keep:
                    # the holder is what the list form returns
                    ok_keep = any(body[i].is_id("return") and body[i + 1].text == items[0] for i in range(len(body) - 1))
                    why = f"the list form does not return `{items[0]}`"
        ctx.check("C07.minmax", f"modules/core.ckl:{name}", None, ok_keep,
                  f"core.ckl {name}: {why}: later elements are compared against something that is not the best key so "
                  f"far", expr=f"{name} keeps key and element", site=f"modules/core.ckl: {name} keeps (best key, its element)")
        loops = [i for i, t in enumerate(body) if t.is_id("for")]
        ok = len(loops) == 1
        ctx.check("C07.minmax", f"modules/core.ckl:{name}", None, ok,
                  f"core.ckl {name} does not scan its list in exactly one loop", expr=f"{name} scan loop",
                  site=f"modules/core.ckl: {name} scans every element once")
