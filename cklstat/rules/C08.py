"""C08 - Rendering is canonical and data literals round-trip through print and parse.

Decided statically:
  C08.sorted      set and map renderers enumerate their elements through the sorted views
  C08.intpayload  every ValueInt(..) construction in the package receives a host int (kind inference); a float
                  payload would render as `14.0` with type int
  C08.escape      the string renderer's escape table and the single-quote scanner states are inverse of each
                  other: every (char -> \\e) is decoded back to the char, backslash is escaped first, and every
                  character that ends or escapes inside a single-quoted literal is in the table
  C08.float       the decimal renderer starts from repr(float), expands exponent notation EXACTLY (through the
                  decimal text, not a fixed number of digits) and appends `.0` when there is no fractional
                  part; the characters it can emit are characters the scanner's number states accept
  C08.delim       delimiter juxtaposition: a container's opening delimiter directly followed by the rendering
                  of an item, and an item directly followed by the closing delimiter, scan as that delimiter
                  (simulated on the scanner table extracted from the source, for every pair of data kinds)
Not decided: numeric value round-trip of decimals digit by digit, pattern escaping, parse(print(v)) == v as a whole.
"""
import ast

from ..cfg import CFG
from ..core import norm
from ..facts import must_facts
from ..kinds import Engine
from ..lexmodel import LexModel, LexShapeError, SimUnsupported, simulate
from .common import known

P = "C08"
EXPLANATION = __doc__
TECHNIQUE = "writer/reader table agreement (renderer escape table vs extracted scanner automaton), kind " \
            "inference for int payloads, simulation of delimiter pairs on the extracted scanner table"
LEVEL_TEXT = (
    "Static agreement check between the renderers (__repr__ of the value classes) and the scanner extracted from "
    "Lexer.scan: decides sorted enumeration in set/map renderings, host-int payloads of all int constructions, "
    "inverse escape tables, exact positional expansion of decimals and correct tokenisation of every "
    "delimiter/item juxtaposition among data kinds. These are necessary conditions of the round trip for all "
    "values; the round trip itself is not executed.")
LEVEL_NOTE = "Trusted: CPython repr(float) emits only digits . - e + inf nan; the scanner-table extractor and simulator."
ASSUMPTIONS = ["data values only (functions, streams, nodes and objects have no literal form)"]
FLOORS = {"C08.sorted": 2, "C08.intpayload": 50, "C08.escape": 6, "C08.float": 4, "C08.delim": 40}


def run(ctx):
    model = ctx.model
    try:
        lm = LexModel(model, P)
    except LexShapeError as e:
        ctx.broken("Lexer.scan", str(e))
    sorted_views(ctx, model)
    order_exact(ctx, model)
    intpayload(ctx, model)
    escape(ctx, model, lm)
    floats(ctx, model, lm)
    delim(ctx, model, lm)
    pattern_body(ctx, model, lm)


def pattern_body(ctx, model, lm):
    """A pattern is rendered with its regex text as it is (no escaping), so the scanner state that collects a pattern
    literal accepts EVERY character: a character refused there (line feed, say) is a pattern value whose rendering is
    not a program.  (When the rendering starts to escape, this rule has to learn the escapes: refused, not guessed.)"""
    rp = model.method(P, "ValuePattern", "__repr__")
    rets = [n for n in ast.walk(rp.node) if isinstance(n, ast.Return) and n.value is not None]
    raw = len(rets) == 1 and not any(isinstance(x, ast.Call) and not (isinstance(x.func, ast.Name) and x.func.id in
                                                                      ("str", "format"))
                                     for x in ast.walk(rets[0].value))
    if not raw:
        ctx.broken("ValuePattern.__repr__", "the rendering of a pattern is no longer the raw regex text between the "
                   "delimiters: the scanner/renderer agreement for patterns has to be re-derived")
    scan = model.method(P, "Lexer", "scan")
    pstates = sorted({s_ for s_, leaves in lm.states.items() for l in leaves
                      if any(e.type == "'pattern'" or e.type == "pattern" or "pattern" in str(e.type) for e in l.emits)})
    if not pstates:
        ctx.broken("Lexer.scan", "no scanner state emits a pattern token")
    for s_ in pstates:
        bad = [l for l in lm.states[s_] if l.raises]
        ctx.check("C08.pattern", scan, None, not bad,
                  f"scanner state {s_} (inside a pattern literal) refuses some character ("
                  f"{bad[0].cond_text() if bad else ''}: {bad[0].raises if bad else ''}) while ValuePattern.__repr__ "
                  f"writes the regex text unescaped: a pattern value containing that character renders to text that "
                  f"is not a program", expr=f"pattern state {s_} total",
                  site=f"Lexer.scan: pattern state {s_} accepts every character (rendering is raw)")


def order_exact(ctx, model):
    """The sorted views are canonical only if the order between ints and decimals is exact (no rounding)."""
    vi = model.cls(P, "ValueInt")
    ad = vi.methods.get("asDecimal")
    ok = ad is not None and norm(ad.node.body[-1]) == "return ValueDecimal(self.value)"
    ctx.check("C08.sorted", ad or vi, None, ok,
              "ValueInt.asDecimal rounds the payload (float(..)): an int beyond 2^53 and the decimal it rounds to are "
              "then neither < nor > nor hash-equal, both stay in a set/map and the stable sort leaves them in insertion "
              "order - equal containers render differently", expr="ValueInt.asDecimal exact",
              site="ValueInt.asDecimal: exact promotion (sorted rendering needs a total order)")


def sorted_views(ctx, model):
    for cname, view in (("ValueSet", "getSortedItems"), ("ValueMap", "getSortedKeys")):
        m = model.method(P, cname, "__repr__")
        iters = [n for n in ast.walk(m.node) if isinstance(n, ast.comprehension)] + \
                [n for n in ast.walk(m.node) if isinstance(n, ast.For)]
        ok = bool(iters) and all(norm(i.iter) == f"self.{view}()" for i in iters)
        ctx.check("C08.sorted", m, None, ok,
                  f"{cname}.__repr__ does not enumerate through self.{view}(): equal values built in different "
                  f"orders render differently", expr=f"{cname}.__repr__ enumeration",
                  site=f"{cname}.__repr__: elements from self.{view}()")


def host_kind_dispatch(ctx, model):
    """json.loads hands back host bools; `isinstance(x, int)` is also true for them.  Where host data is turned into
    language values, an int test that a bool can pass (isinstance before / without the bool case) makes a ValueInt whose
    payload renders `True` / `False` - text that is no numeral and does not read back."""
    from .common import resolve_static_call
    n = 0
    for f in model.all_funcs():
        for c in ast.walk(f.node):
            if not (isinstance(c, ast.Call) and norm(c.func) in ("json.loads", "json.load")):
                continue
            conv = None
            for x in ast.walk(f.node):
                if isinstance(x, ast.Call) and x is not c and x.args and (
                        x.args[0] is c or (isinstance(x.args[0], ast.Name) and any(
                            isinstance(a, ast.Assign) and a.value is c and norm(a.targets[0]) == x.args[0].id
                            for a in ast.walk(f.node)))):
                    conv = resolve_static_call(model, f, x)
            if conv is None:
                continue
            p0 = conv.params[1] if conv.cls is not None else conv.params[0]
            g = CFG(conv.node, implicit_exc=False)
            facts = must_facts(g)
            for node in g.nodes:
                a = node.ast if node.kind != "for" else None
                if a is None:
                    continue
                for x in ast.walk(a):
                    if isinstance(x, ast.Call) and norm(x.func) == "ValueInt" and x.args and norm(x.args[0]) == p0:
                        have = facts.get(node.id, frozenset())
                        exact = (f"type({p0}) == int", True) in have
                        no_bool = (f"isinstance({p0}, bool)", False) in have or (f"type({p0}) == bool", False) in have
                        n += 1
                        ctx.check("C08.intpayload", conv, x, exact or no_bool,
                                  f"{conv.qual} makes a ValueInt of host data `{p0}` under a test a host bool passes as "
                                  f"well (isinstance(.., int) without excluding bool): JSON true / false become ints "
                                  f"that render `True` / `False`",
                                  site=f"{conv.qual}: ValueInt({p0}) only for exact host ints")
    ctx.ob("C08.intpayload", f"{n} conversion(s) of deserialised host data into ValueInt examined", True)


def total_order_of_keys(ctx, model):
    """the sorted views that make renderings canonical sort with the values' own `<`; for values whose payload is a host
    set / dict that must not be the host comparison of the payloads (inclusion: a partial order)"""
    for cname in ("ValueSet", "ValueMap", "ValueObject"):
        lt = model.classes[cname].methods.get("__lt__") if cname in model.classes else None
        if lt is None:
            continue
        other = lt.params[1] if len(lt.params) == 2 else "other"
        bad_ = [n for n in ast.walk(lt.node) if isinstance(n, ast.Compare) and len(n.ops) == 1
                and isinstance(n.ops[0], (ast.Lt, ast.Gt, ast.LtE, ast.GtE))
                and norm(n.left) in ("self.value", f"{other}.value")
                and norm(n.comparators[0]) in ("self.value", f"{other}.value")]
        ctx.check("C08.sorted", lt, bad_[0] if bad_ else None, not bad_,
                  f"{cname}.__lt__ compares the host {'set' if cname == 'ValueSet' else 'dict'} payloads: incomparable "
                  f"values keep their insertion order in the sorted views, so equal collections built in different "
                  f"orders render differently", expr=f"{cname}.__lt__ host payload order",
                  site=f"{cname}.__lt__: a total order (no host `<` between set / dict payloads)")


def intpayload(ctx, model):
    total_order_of_keys(ctx, model)
    host_kind_dispatch(ctx, model)
    engine = Engine(model)
    n = 0
    for f in model.all_funcs():
        if not any(isinstance(x, ast.Call) and norm(x.func) == "ValueInt" for x in ast.walk(f.node)):
            continue
        ip = engine.interp(f)
        for ev in ip.events:
            if ev.kind != "call":
                continue
            fn, args, kwargs = ev.data
            if norm(fn) != "ValueInt" or len(args) != 1:
                continue
            n += 1
            a = args[0]
            bad = known(a) and not (a.types & {"int", "bool"})
            ctx.check("C08.intpayload", f, ev.node, not bad,
                      f"ValueInt is constructed with a payload of host type {sorted(a.types) if known(a) else '?'}: "
                      f"an int value whose payload is not a host int renders with a fractional part (or not as a "
                      f"numeral at all)", site=f"{f.qual}: {norm(ev.node)[:70]} [{a!r}]"[:140])
    if n < 50:
        ctx.broken("ValueInt constructions", f"only {n} typed")


def escape(ctx, model, lm):
    m = model.method(P, "ValueString", "__repr__")
    table = []
    for st in m.node.body:
        if isinstance(st, ast.Assign) and isinstance(st.value, ast.Call) and isinstance(st.value.func, ast.Attribute) \
                and st.value.func.attr == "replace" and len(st.value.args) == 2 \
                and all(isinstance(a, ast.Constant) for a in st.value.args):
            table.append((st.value.args[0].value, st.value.args[1].value))
    # the same table kept at module level and applied in a loop: for a, b in TABLE: x = x.replace(a, b)
    for st in m.node.body:
        if isinstance(st, ast.For) and isinstance(st.iter, ast.Name) and isinstance(st.target, ast.Tuple) \
                and len(st.target.elts) == 2 and len(st.body) == 1 and isinstance(st.body[0], ast.Assign):
            call = st.body[0].value
            rows = m.module.globals_assigned.get(st.iter.id)
            names = [norm(x) for x in st.target.elts]
            if isinstance(call, ast.Call) and isinstance(call.func, ast.Attribute) and call.func.attr == "replace" \
                    and [norm(a) for a in call.args] == names and norm(call.func.value) == norm(st.body[0].targets[0]) \
                    and isinstance(rows, (ast.Tuple, ast.List)) and all(
                        isinstance(r, (ast.Tuple, ast.List)) and len(r.elts) == 2
                        and all(isinstance(x, ast.Constant) for x in r.elts) for r in rows.elts):
                table += [(r.elts[0].value, r.elts[1].value) for r in rows.elts]
    if len(table) < 3:
        ctx.broken("ValueString.__repr__", "replacement table not found")
    ctx.check("C08.escape", m, None, table[0][0] == "\\",
              f"the first replacement is {table[0]!r}, not the backslash: escapes produced by earlier replacements "
              f"would be escaped again", expr="backslash first", site="ValueString.__repr__: backslash escaped first")
    ret = m.node.body[-1]
    ok = False
    if isinstance(ret, ast.Return) and isinstance(ret.value, ast.JoinedStr):
        parts = ret.value.values
        ok = len(parts) == 3 and all(isinstance(parts[k], ast.Constant) and parts[k].value == "'" for k in (0, 2)) \
            and isinstance(parts[1], ast.FormattedValue) and isinstance(parts[1].value, ast.Name)
    elif isinstance(ret, ast.Return) and isinstance(ret.value, ast.BinOp):
        t_ = norm(ret.value)
        ok = t_.startswith("\"'\" + ") and t_.endswith(" + \"'\"")
    ctx.check("C08.escape", m, None, ok, "strings are not rendered in single quotes", expr="single quotes",
              site="ValueString.__repr__: '...'")
    # the single-quote automaton
    sq = {lm.target(l) for l in lm.step(0, "'") if lm.target(l) != 0}
    if len(sq) != 1:
        ctx.broken("Lexer.scan", "single-quote state not found")
    s4 = sq.pop()
    esc = {lm.target(l) for l in lm.step(s4, "\\") if lm.target(l) != s4}
    if len(esc) != 1:
        ctx.broken("Lexer.scan", "escape state of single-quoted strings not found")
    s41 = esc.pop()
    for ch, rep in table:
        ok = len(rep) == 2 and rep[0] == "\\"
        decoded = None
        if ok:
            leaves = [l for l in lm.step(s41, rep[1]) if l.matches(rep[1]) is True]
            if len(leaves) == 1 and lm.target(leaves[0]) == s4:
                a = leaves[0].appends
                if a == [("ch",)]:
                    decoded = rep[1]
                elif len(a) == 1 and a[0][0] == "lit":
                    decoded = a[0][1]
        ctx.check("C08.escape", m, None, ok and decoded == ch,
                  f"renderer writes {ch!r} as {rep!r} but the scanner reads that back as {decoded!r}",
                  expr=f"escape {ch!r} -> {rep!r}", site=f"escape {ch!r} -> {rep!r} -> scanner -> {decoded!r}")
    # characters special inside a single-quoted literal must be escaped by the renderer
    special = set()
    for c in sorted(lm.alphabet() | {lm.OTHER}):
        for l in lm.step(s4, c):
            if lm.target(l) != s4 or l.emits:
                special.add(c)
    escaped = {c for c, _ in table}
    ctx.check("C08.escape", m, None, special <= escaped,
              f"characters {sorted(special - escaped)} end or escape inside a single-quoted literal but are not "
              f"escaped by the renderer", expr="special characters covered",
              site=f"characters special inside '...' ({sorted(special)}) are all escaped")


def floats(ctx, model, lm):
    m = model.method(P, "ValueDecimal", "__repr__")
    body = m.node.body
    txt = norm(m.node)
    first = body[0] if body else None
    ok = isinstance(first, ast.Assign) and norm(first.value) == "repr(self.value)"
    ctx.check("C08.float", m, None, ok, "decimal rendering does not start from repr(self.value) (shortest "
              "round-tripping digits)", expr="repr(self.value)", site="ValueDecimal.__repr__: starts from repr(self.value)")
    var = norm(first.targets[0]) if ok else "result"
    # exponent handling must be exact
    exp_if = [n for n in body if isinstance(n, ast.If) and norm(n.test) in (f"'e' in {var}", f'"e" in {var}')]
    ok = len(exp_if) == 1 and [norm(s) for s in exp_if[0].body] == [f"{var} = format(decimal.Decimal({var}), 'f')"]
    ctx.check("C08.float", m, exp_if[0] if exp_if else None, ok,
              "exponent notation is not expanded exactly from the repr text (format(decimal.Decimal(text), 'f')): "
              "either exponent forms reach the output (the scanner has no exponent syntax) or digits are lost",
              expr="exact positional expansion", site="ValueDecimal.__repr__: 'e' -> exact positional digits")
    for n in ast.walk(m.node):
        spec = None
        if isinstance(n, ast.Call) and norm(n.func) == "format" and len(n.args) == 2 and "self.value" in norm(n.args[0]):
            spec = norm(n.args[1])
        if isinstance(n, ast.FormattedValue) and n.format_spec is not None and "self.value" in norm(n.value):
            spec = norm(n.format_spec)
        if isinstance(n, ast.BinOp) and isinstance(n.op, ast.Mod) and isinstance(n.left, ast.Constant) \
                and isinstance(n.left.value, str) and "self.value" in norm(n.right):
            spec = n.left.value
        if isinstance(n, ast.Call) and norm(n.func) == "round":
            spec = "round()"
        if spec is not None:
            ctx.check("C08.float", m, n, False,
                      f"the float payload is formatted with a fixed precision ({spec}): values whose shortest "
                      f"representation needs more digits no longer evaluate back to themselves")
    dot_if = [n for n in body if isinstance(n, ast.If) and norm(n.test) in (f"'.' not in {var}", f'"." not in {var}')]
    ok = len(dot_if) == 1 and [norm(s) for s in dot_if[0].body] == [f"{var} += '.0'"]
    ctx.check("C08.float", m, None, ok, "a decimal without fractional part does not get `.0` appended",
              expr="append .0", site="ValueDecimal.__repr__: '.0' appended when there is no '.'")
    # alphabet: what repr(float) can contain vs what the scanner's number states accept
    host_alphabet = set("0123456789.-e+infa")
    handled = set()
    if exp_if:
        handled |= {"e", "+"}
    tests = {norm(n.test) for n in ast.walk(m.node) if isinstance(n, ast.If)}
    if any("inf" in t or "nan" in t or "isinf" in t or "isnan" in t or "isfinite" in t for t in tests):
        handled |= set("infa")
    number_chars = set()
    num_states = [s for s, ls in lm.states.items() if any(e.type in ("int", "decimal") for l in ls for e in l.emits)]
    for s in num_states + [0]:
        for l in lm.states[s]:
            if l.appends == [("ch",)]:
                for c in host_alphabet:
                    if l.matches(c) is True and lm.target(l) in num_states:
                        number_chars.add(c)
    number_chars |= {"-", "0"}            # unary minus is folded by the parser; '0' enters through the zero-prefix state
    rest = host_alphabet - number_chars - handled
    ctx.check("C08.float", m, None, not rest,
              f"repr(float) can contain {sorted(rest)} (inf / nan), which the renderer passes through and the "
              f"scanner's number states do not accept: such a decimal renders as `inf.0` / `nan.0` and does not "
              f"evaluate back", expr="inf/nan rendering", site="ValueDecimal.__repr__: every character it can emit is a numeral character")


HEADS = {"set": "<<", "map": "<<<", "list": "[", "string": "'a'", "pattern": "//a//", "int": "1", "negative": "-1",
         "decimal": "1.5", "boolean": "TRUE", "null": "NULL"}
CONTAINERS = {"list": ("[", "]"), "set": ("<<", ">>"), "map": ("<<<", ">>>")}


def delim(ctx, model, lm):
    # literal heads/tails of the container renderers, from the source
    for cname, (o, c) in (("ValueList", ("[", "]")), ("ValueSet", ("<<", ">>")), ("ValueMap", ("<<<", ">>>"))):
        m = model.method(P, cname, "__repr__")
        lits = [n.value for n in ast.walk(m.node) if isinstance(n, ast.Constant) and isinstance(n.value, str)]
        ctx.check("C08.delim", m, None, o in lits and c in lits,
                  f"{cname} is not rendered between {o!r} and {c!r}", expr=f"{cname} delimiters",
                  site=f"{cname}.__repr__: {o} ... {c}")
        sep = [l for l in lits if l.strip() in (",", "=>", ", ")]
        ctx.check("C08.delim", m, None, ", " in lits, f"{cname} items are not separated by ', '",
                  expr=f"{cname} separator", site=f"{cname}.__repr__: ', ' separator")
    samples = {"set": "<<1>>", "map": "<<<1 => 2>>>", "list": "[1]", "string": "'a'", "pattern": "//a//", "int": "1",
               "negative": "-1", "decimal": "1.5", "boolean": "TRUE", "null": "NULL", "emptyset": "<<>>",
               "emptymap": "<<<>>>", "emptylist": "[]"}
    for cont, (o, c) in CONTAINERS.items():
        for kind, item in samples.items():
            if cont == "map":
                text = f"{o}{item} => {item}{c}"
            else:
                text = f"{o}{item}{c}"
            try:
                toks = simulate(lm, text)
            except SimUnsupported as e:
                ctx.broken("scanner simulation", str(e))
            ok = bool(toks) and toks[0] == (o, "interpunction") and toks[-1] == (c, "interpunction")
            ctx.check("C08.delim", lm.func, None, ok,
                      f"the rendering `{text}` of a {cont} holding a {kind} does not scan back as {o} ... {c} "
                      f"(tokens: {[t for t, _ in toks][:6]}): adjacent delimiters merge into a longer token",
                      expr=f"{cont} of {kind}: {text}", site=f"{cont} of {kind}: `{text}` scans as {o} .. {c}")
