"""C09 - Secure mode denies file, process and script-loading access to every program.

Decided statically as an effect / who-may-call analysis over the resolved call graph:
  C09.imports    only audited host modules are imported (anything else: every use is a sink)
  C09.noreflect  no reflection, so 'unreachable in the call graph' means unreachable
  C09.flagattr   the per-function `secure` attribute is written only in constructors, with constants
  C09.effect     no built-in whose flag is left at 'secure' can reach a sensitive host operation
  C09.sites      every sensitive call site is in an insecure built-in, in the two module-source
                 readers the property exempts, or in host-only entry points
  C09.gate       one registration route; every path to the registration passes the secure-mode test;
                 insecure built-ins are constructed only for that route or under `if not secure`
  C09.flag       the base flag is written once, from the constructor argument; assignment to
                 checkerlang_* names is rejected by both assignment node constructors; only
                 Environment.put/set store into an environment; root environments are created
                 only for the base environment
  C09.ckl        bundled .ckl modules obtain natives only through bind_native("literal"[, "literal"])
                 naming natives the binder knows, and never define checkerlang_secure_mode
"""
import ast
import itertools

from ..callgraph import CallGraph, dotted, reflection_sites
from ..cfg import CFG
from ..core import norm
from .. import cklsrc

P = "C09"

AUDITED_IMPORTS = {"datetime", "decimal", "json", "pkgutil", "platform", "math", "os", "random", "re",
                   "shutil", "subprocess", "functools", "argparse", "sys", "ckl"}
SENSITIVE_MODULES = {"os", "shutil", "subprocess", "pkgutil", "io", "pathlib", "tempfile", "glob",
                     "socket", "importlib", "ctypes", "fileinput", "urllib", "http", "ftplib",
                     "zipfile", "tarfile", "sqlite3", "dbm", "shelve", "pickle", "mmap", "fcntl",
                     "multiprocessing", "threading", "signal", "pty", "codecs", "runpy", "webbrowser"}
PURE_OS = {"os.path.join", "os.path.basename", "os.path.dirname", "os.path.sep", "os.linesep",
           "os.path.pathsep", "os.sep", "os.path.splitext", "os.path.split", "os.environ.get",
           "os.path.expanduser", "os.getcwd"}
SENSITIVE_BUILTINS = {"open", "exec", "eval", "compile", "__import__", "input", "breakpoint"}
# the exception the property grants: the interpreter itself reads module sources
# (owner, operation): owner is a class (any of its methods) or a module function; helpers whose only callers are
# exempt owners inherit the exemption (computed from the call graph in run())
EXEMPT_OPS = {
    "NodeRequire": {"pkgutil.get_data", "os.path.exists", "open"},
    "get_base_environment": {"pkgutil.get_data"},
}
FLAG = "checkerlang_secure_mode"

EXPLANATION = __doc__
TECHNIQUE = "effect analysis over a resolved call graph + who-may-call + path-sensitive gate check + table agreement"
LEVEL_TEXT = (
    "Static effect analysis of the whole package: decides that no built-in left at secure=True and no evaluator "
    "can reach a file/process/loader operation of the host (other than the module-source reads the property "
    "exempts), that function values are registered through one gate all of whose paths test the base flag, "
    "that insecure built-ins are constructed only for that gate, and that the flag cannot be rewritten. This is "
    "the whole property under the stated assumptions (sound over-approximating call graph, no reflection), for "
    "every program, name and alias at once; it is not a run of any program.")
LEVEL_NOTE = (
    "Trusted: CPython ast; the call-graph resolution rules of cklstat (method calls on unknown receivers "
    "dispatch to every class defining the name); the audited list of host modules; os.environ / platform / cwd "
    "reads are not counted as file or process access.")
ASSUMPTIONS = [
    "CPython semantics; the process environment (os.environ), platform.* and the current directory are "
    "not 'file or process access' in the property's sense (sites listed in evidence notes)",
    "host programs embedding the interpreter do not hand insecure function values to scripts themselves",
    "bundled module sources under src/ckl/modules are the only code evaluated in the root environment",
]
FLOORS = {"C09.effect": 100, "C09.sites": 30, "C09.gate.branch": 100, "C09.flag.literal": 2,
          "C09.ckl.bind": 100, "C09.gate.path": 2}


def is_sink_name(name):
    head = name.split(".")[0]
    if head in SENSITIVE_MODULES:
        return name not in PURE_OS
    if name in SENSITIVE_BUILTINS:
        return True
    return False


def secure_assignments(model):
    """All writes to an attribute named `secure`: [(Func, ast.Assign/AugAssign, value)]."""
    out = []
    for f in model.all_funcs(True):
        for n in ast.walk(f.node):
            targets = []
            if isinstance(n, ast.Assign):
                targets = n.targets
            elif isinstance(n, (ast.AugAssign, ast.AnnAssign)):
                targets = [n.target]
            for t in targets:
                for tt in ast.walk(t):
                    if isinstance(tt, ast.Attribute) and tt.attr == "secure" and isinstance(tt.ctx, ast.Store):
                        out.append((f, n, getattr(n, "value", None)))
            if isinstance(n, ast.Call) and isinstance(n.func, ast.Name) and n.func.id == "setattr":
                out.append((f, n, None))
    return out


def declared_insecure(model, cls):
    """True iff the class's own __init__ assigns the constant False to self.secure as a top-level
    statement after the super().__init__ call and nothing else in the class writes it."""
    init = cls.methods.get("__init__")
    if init is None:
        return False
    seen_super = False
    flag = None
    for st in init.node.body:
        if isinstance(st, ast.Expr) and isinstance(st.value, ast.Call) and "super" in norm(st.value.func):
            seen_super = True
        if isinstance(st, ast.Assign) and len(st.targets) == 1 and norm(st.targets[0]) == "self.secure":
            if isinstance(st.value, ast.Constant) and st.value.value is False and seen_super:
                flag = False
            else:
                flag = "other"
    return flag is False


def run(ctx):
    model = ctx.model
    cg = CallGraph(model)
    functions = model.module(P, "functions")
    values = model.module(P, "values")
    vf = model.cls(P, "ValueFunc")

    # ---------------------------------------------------------------- imports / reflection
    for m in model.modules.values():
        for name, origin in sorted(m.imports.items()):
            top = origin.split(".")[0]
            ctx.check("C09.imports", m.rel, m.tree, top in AUDITED_IMPORTS,
                      f"import of unaudited module '{origin}': every call into it is treated as a "
                      f"sensitive sink", expr=f"import {origin}", site=f"{m.rel}: import {origin}")
    refl = reflection_sites(model)
    loaders = {"eval", "exec", "compile", "__import__", "breakpoint"}
    hard = [(f, n, what) for f, n, what in refl if what in loaders or f is None]
    soft = [(f, n, what) for f, n, what in refl if not (what in loaders or f is None)]
    ctx.ob("C09.noreflect", "whole package: eval/exec/compile/__import__/importlib (code loading) absent; "
           "getattr only with statically known names; no setattr/globals/__dict__ ...",
           not refl, f"{len(refl)} site(s)")
    for f, n, what in hard:
        ctx.fail("C09.noreflect", f if f else "module", n if f else None,
                 f"{what}: host code loading is itself a way around the secure-mode gate", expr=what,
                 file=(f.file if f else n.rel))
    # reflection whose target cannot be told statically does not violate the property by itself, but it removes
    # the ground under 'unreachable in the call graph means unreachable': the analysis refuses (exit 2)
    ctx.pending_refusal = None
    if soft:
        f, n, what = soft[0]
        ctx.pending_refusal = (f.qual, f"reflection ({what} at {f.file}:{getattr(n, 'lineno', 0)}) with a target that "
                               f"cannot be told statically: the call-graph argument is not available")

    # ---------------------------------------------------------------- flag attribute discipline
    vf_init = vf.methods.get("__init__")
    if vf_init is None or "self.secure = True" not in norm(vf_init.node):
        ctx.broken("ValueFunc.__init__", "default `self.secure = True` not found")
    subclasses = model.subclasses("ValueFunc")
    if len(subclasses) < 100:
        ctx.broken("ValueFunc subclasses", f"only {len(subclasses)} found")
    insecure = {c.name for c in subclasses if declared_insecure(model, c)}
    for f, n, val in secure_assignments(model):
        ok = False
        if f.cls is not None and f.name == "__init__":
            if f.cls.name == "ValueFunc" and isinstance(val, ast.Constant) and val.value is True:
                ok = True
            elif f.cls.name in insecure and isinstance(val, ast.Constant) and val.value is False:
                ok = True
            elif isinstance(val, ast.Constant) and val.value is True and norm(n.targets[0]) == "self.secure":
                ok = True       # re-stating the default is harmless
        ctx.check("C09.flagattr", f, n, ok,
                  "the secure attribute may only be set to a constant inside a constructor "
                  "(True by default, False in an OS-touching built-in)")

    # ---------------------------------------------------------------- sink sites
    sink_sites = []          # (Func, Ref, name)
    for f in model.all_funcs(True):
        for r in cg.refs(f):
            if r.kind == "host" and is_sink_name(r.target):
                sink_sites.append((f, r, r.target))
            elif r.kind == "host" and r.target.split(".")[0] not in AUDITED_IMPORTS and \
                    r.target.split(".")[0] in {o.split(".")[0] for o in f.module.imports.values()}:
                sink_sites.append((f, r, r.target))
    sinks_in = {}
    for f, r, name in sink_sites:
        sinks_in.setdefault(f, []).append((r, name))

    def exec_filter(mname, cand):
        # a call `x.execute(..)` / `x.evaluate(..)` on an unknown receiver: function values that exist
        # in a secure interpreter are the secure classes only (C09.gate shows that)
        if mname == "execute" and cand.cls is not None and cand.cls.name in insecure:
            return False
        return True

    callers = {}
    for g_ in model.all_funcs(True):
        for r_ in cg.refs(g_):
            for t_ in cg.targets(g_, r_):
                callers.setdefault(t_, set()).add(g_)
    owner_memo = {}

    def exempt_owner(f, depth=0):
        """the exempt owner a function belongs to: directly, or because all its callers belong to the same one"""
        if f in owner_memo:
            return owner_memo[f]
        owner_memo[f] = None
        own = f.cls.name if f.cls is not None and f.cls.name in EXEMPT_OPS else f.qual if f.qual in EXEMPT_OPS else None
        if own is None and depth < 3 and callers.get(f):
            owners = {exempt_owner(c, depth + 1) for c in callers[f] if c is not f}
            if len(owners) == 1 and None not in owners:
                own = owners.pop()
        owner_memo[f] = own
        return own

    def is_exempt(f, name):
        own = exempt_owner(f)
        return own is not None and name in EXEMPT_OPS[own]

    def unexempt_sinks(f):
        out = []
        for r, name in sinks_in.get(f, []):
            if is_exempt(f, name):
                if name == "open" and not _read_only_open(r):
                    out.append((r, name + " (not read-only)"))
                continue
            out.append((r, name))
        return out

    # C09.effect: per secure built-in
    n_secure = 0
    for c in sorted(subclasses, key=lambda c: c.name):
        if c.name in insecure:
            continue
        n_secure += 1
        roots = [m for m in c.methods.values() if m.name != "__init__"]
        seen = cg.reach(roots, dispatch_filter=exec_filter)
        bad = []
        for f in seen:
            for r, name in unexempt_sinks(f):
                bad.append((f, r, name))
        ctx.ob("C09.effect", f"{c.name}: reach({len(seen)} functions) has no sensitive sink", not bad,
               "; ".join(f"{name} in {f.qual}" for f, r, name in bad[:4]))
        for f, r, name in bad:
            ctx.fail("C09.effect", c.methods.get("execute") or roots[0], r.node,
                     f"built-in {c.name} keeps secure=True but reaches {name} in {f.qual} "
                     f"(path: {CallGraph.path_to(seen, f)})", expr=f"{c.name} -> {f.qual}: {name}")
    for c in sorted(subclasses, key=lambda c: c.name):
        if c.name in insecure:
            ctx.ob("C09.effect", f"{c.name}: declared insecure (self.secure = False in __init__)", True)

    # C09.sites: secure-reachable code from program evaluation
    node_classes = [c for c in model.module(P, "nodes").classes.values() if "evaluate" in c.methods]
    if len(node_classes) < 35:
        ctx.broken("nodes.py", f"only {len(node_classes)} node classes with evaluate()")
    roots = [c.methods["evaluate"] for c in node_classes]
    for c in subclasses:
        if c.name not in insecure:
            roots.extend(m for m in c.methods.values())
    interp = model.cls(P, "Interpreter")
    if "interpret" in interp.methods:
        roots.append(interp.methods["interpret"])
    seen = cg.reach(roots, dispatch_filter=exec_filter)
    for f, r, name in sorted(sink_sites, key=lambda x: (x[0].file, x[2], x[1].node.lineno)):
        if f.cls is not None and f.cls.name in insecure:
            where = "insecure built-in"
            ok = True
        elif is_exempt(f, name):
            ok = name != "open" or _read_only_open(r)
            where = "module-source reader (exempt)"
        elif f not in seen:
            ok = True
            where = "not reachable from program evaluation in secure mode"
        else:
            ok = False
            where = "reachable from program evaluation: " + CallGraph.path_to(seen, f)
        ctx.ob("C09.sites", f"{f.file}:{f.qual}: {name} [{where}]", ok)
        if not ok:
            ctx.fail("C09.sites", f, r.node, f"sensitive operation {name} is {where}", expr=name)
    for f in model.all_funcs(True):
        for r in cg.refs(f):
            if r.kind == "host" and r.target in PURE_OS | {"platform.system", "platform.release",
                                                          "platform.machine"} and r.is_call:
                ctx.note(f"not judged (environment/path-string helper): {r.target} in {f.qual}")

    # ---------------------------------------------------------------- gate
    gate(ctx, cg, insecure, subclasses)
    flag(ctx, cg)
    ckl(ctx, insecure)
    if ctx.pending_refusal and not ctx.findings:
        ctx.broken(*ctx.pending_refusal)


def _read_only_open(ref):
    call = ref.call
    if call is None:
        return False
    mode = None
    if len(call.args) >= 2:
        mode = call.args[1]
    for kw in call.keywords:
        if kw.arg == "mode":
            mode = kw.value
    if mode is None:
        return True
    return isinstance(mode, ast.Constant) and mode.value in ("r", "rt", "rb")


# --------------------------------------------------------------------------------------------------

def _atoms_of_test(test, atom_of):
    """Translate a test expression into a nested tuple formula over named atoms."""
    if isinstance(test, ast.BoolOp):
        op = "and" if isinstance(test.op, ast.And) else "or"
        return (op, [_atoms_of_test(v, atom_of) for v in test.values])
    if isinstance(test, ast.UnaryOp) and isinstance(test.op, ast.Not):
        return ("not", [_atoms_of_test(test.operand, atom_of)])
    return ("atom", atom_of(test))


def _eval(formula, env):
    op, arg = formula
    if op == "atom":
        return env[arg]
    if op == "not":
        return not _eval(arg[0], env)
    if op == "and":
        return all(_eval(a, env) for a in arg)
    return any(_eval(a, env) for a in arg)


def _collect_atoms(formula, acc):
    op, arg = formula
    if op == "atom":
        acc.add(arg)
    else:
        for a in arg:
            _collect_atoms(a, acc)


def gate(ctx, cg, insecure, subclasses):
    model = ctx.model
    add_fn = model.func(P, "functions", "add")
    bnf = model.func(P, "functions", "bind_native_fun")
    bn = model.func(P, "functions", "bind_native")

    # who may call add()
    for f in model.all_funcs(True):
        for r in cg.refs(f):
            if r.kind == "func" and r.target is add_fn:
                ctx.check("C09.gate.add", f, r.node, f is bnf,
                          "add() (raw registration of a function value) referenced outside bind_native_fun")
    # add() itself only puts into the environment it was given
    for n in ast.walk(add_fn.node):
        if isinstance(n, ast.Call):
            ctx.check("C09.gate.add", add_fn, n, norm(n.func) == "env.put",
                      "add() does something other than env.put(name, func)")

    # path rule on bind_native_fun
    params = bnf.params
    if len(params) < 2:
        ctx.broken("bind_native_fun", "unexpected signature")
    envp, funcp = params[0], params[1]

    # local aliases: name -> expression text (single assignment)
    alias = {}
    for n in ast.walk(bnf.node):
        if isinstance(n, ast.Assign) and len(n.targets) == 1 and isinstance(n.targets[0], ast.Name):
            alias[n.targets[0].id] = n.value

    def expand(e, depth=0):
        if isinstance(e, ast.Name) and e.id in alias and depth < 4:
            return expand(alias[e.id], depth + 1)
        return e

    def atom_of(e):
        e = expand(e)
        txt = norm(e)
        if FLAG in txt and ".getBase()" in txt and ".get(" in txt:
            if isinstance(e, ast.Compare) or not (txt.endswith(".value") or txt.endswith(".isTrue()")):
                return "other:" + txt
            return "F"
        if txt == f"{funcp}.secure":
            return "S"
        return "other:" + txt

    g = CFG(bnf.node, implicit_exc=False)

    def is_add_call(n):
        return n.ast is not None and any(
            isinstance(c, ast.Call) and isinstance(c.func, ast.Name) and c.func.id == "add"
            for c in ast.walk(n.ast))

    paths = g.paths(stop=is_add_call)
    n_add_paths = 0
    for path in paths:
        last = path[-1][0]
        if not is_add_call(last):
            continue
        n_add_paths += 1
        conds = []
        for node, label in path[:-1]:
            if node.kind == "test" and label in ("true", "false"):
                f = _atoms_of_test(node.ast, atom_of)
                conds.append(f if label == "true" else ("not", [f]))
        atoms = set()
        for c in conds:
            _collect_atoms(c, atoms)
        atoms |= {"F", "S"}
        atoms = sorted(atoms)
        leak = False
        for vals in itertools.product([False, True], repeat=len(atoms)):
            env = dict(zip(atoms, vals))
            if env["F"] and not env["S"] and all(_eval(c, env) for c in conds):
                leak = True
                break
        ctx.check("C09.gate.path", bnf, last.ast, not leak,
                  "a path reaches add() although the base secure flag is set and func.secure is false",
                  site="bind_native_fun: path " + " / ".join(
                      f"{norm(n.ast)[:50]}={l}" for n, l in path[:-1] if n.kind == 'test'))
    if n_add_paths == 0:
        ctx.broken("bind_native_fun", "no path reaches add(): shape not understood")
    ctx.ob("C09.gate.path", "bind_native_fun: registers only through add()", True)
    for n in ast.walk(bnf.node):
        if isinstance(n, ast.Call) and norm(n.func).endswith((".put", ".set", ".addItem")):
            ctx.check("C09.gate.path", bnf, n, False, "bind_native_fun stores into an environment directly")

    # every construction of a ValueFunc subclass inside bind_native is the 2nd argument of bind_native_fun
    names = {c.name for c in subclasses}
    for f in model.all_funcs(True):
        parents = {}
        for n in ast.walk(f.node):
            for ch in ast.iter_child_nodes(n):
                parents[id(ch)] = n
        for r in cg.refs(f):
            if r.kind != "ctor" or r.target.name not in names or not r.is_call:
                continue
            cname = r.target.name
            call = r.call
            par = parents.get(id(call))
            via_gate = (isinstance(par, ast.Call) and isinstance(par.func, ast.Name)
                        and par.func.id == "bind_native_fun" and len(par.args) >= 2 and par.args[1] is call)
            if not via_gate and f.name == "<module>":
                dv = _deferred_in_gate_table(model, f, call, parents, bn)
                if dv is True:
                    ctx.ob("C09.gate.branch", f"{cname}() deferred in a table that only bind_native hands to "
                           f"bind_native_fun", True)
                    continue
                elif dv is None and cname in insecure:
                    ctx.pending_refusal = ctx.pending_refusal or (
                        "functions.py", f"insecure built-in {cname} is constructed in a deferred expression at module "
                                        f"level (line {call.lineno}) whose callers cannot be told")
                    continue
            if f is bn:
                ctx.check("C09.gate.branch", f, call, via_gate,
                          f"bind_native constructs {cname} without handing it to bind_native_fun",
                          site=f"bind_native: {cname}()")
            elif cname in insecure:
                ok = via_gate or _under_not_secure(f, call, parents)
                ctx.check("C09.gate.ctor", f, call, ok,
                          f"insecure built-in {cname} constructed outside the gate and not under "
                          f"`if not secure`")
    # bind_native: literal dispatch table, for C09.ckl
    from .common import native_registry, resolve_static_call
    table = set(native_registry(model, P))
    binders = [bn]
    for n in ast.walk(bn.node):
        if isinstance(n, ast.Call) and any(norm(a) == bn.params[1] for a in n.args):
            callee = resolve_static_call(model, bn, n)
            if callee is not None and callee is not bnf and callee not in binders:
                binders.append(callee)
    for b in binders:
        pnames = set(b.params)
        for n in ast.walk(b.node):
            if isinstance(n, ast.Compare) and isinstance(n.left, ast.Name) and n.left.id in pnames \
                    and len(n.ops) == 1 and isinstance(n.ops[0], ast.Eq) and isinstance(n.comparators[0], ast.Constant) \
                    and isinstance(n.comparators[0].value, str):
                table.add(n.comparators[0].value)
    if len(table) < 110:
        ctx.broken("bind_native", f"dispatch table has only {len(table)} literal names")
    ctx.binder_table = table
    # FuncBindNative is the only built-in that calls bind_native
    for f in model.all_funcs(True):
        for r in cg.refs(f):
            if r.kind == "func" and r.target is bn:
                ok = f.qual in ("FuncBindNative.execute", "get_base_environment")
                ctx.check("C09.gate.binder", f, r.node, ok, "bind_native called from an unexpected place")
    for f in model.all_funcs(True):
        for r in cg.refs(f):
            if r.kind == "func" and r.target is bnf:
                ctx.check("C09.gate.binder", f, r.node, f is bn,
                          "bind_native_fun called from outside bind_native")


def _deferred_in_gate_table(model, f, call, parents, bn):
    """A constructor inside `lambda: FuncX()` stored in a module-level dict T: True when every use of T in the package
    is inside bind_native as `key in T` or as `bind_native_fun(env, T[key](), ..)`; None when the construction is
    deferred but its callers cannot be told; False when it is not deferred at all."""
    node = call
    lam = None
    while id(node) in parents:
        node = parents[id(node)]
        if isinstance(node, (ast.Lambda, ast.FunctionDef)) and node is not f.node:
            lam = node
            break
    if lam is None:
        return False
    tbl = None
    for name, v in f.module.globals_assigned.items():
        if isinstance(v, ast.Dict) and any(x is lam for x in v.values):
            tbl = name
    if tbl is None:
        return None
    for g in model.all_funcs(True):
        gp = {}
        for n in ast.walk(g.node):
            for ch in ast.iter_child_nodes(n):
                gp[id(ch)] = n
        for n in ast.walk(g.node):
            if not (isinstance(n, ast.Name) and n.id == tbl and isinstance(n.ctx, ast.Load)):
                continue
            par = gp.get(id(n))
            if g is not bn:
                return None
            if isinstance(par, ast.Compare) and isinstance(par.ops[0], (ast.In, ast.NotIn)) and par.comparators[0] is n:
                continue
            ok = False
            if isinstance(par, ast.Subscript) and par.value is n:
                c1 = gp.get(id(par))
                if isinstance(c1, ast.Call) and c1.func is par:
                    c2 = gp.get(id(c1))
                    ok = isinstance(c2, ast.Call) and isinstance(c2.func, ast.Name) and c2.func.id == "bind_native_fun" \
                        and len(c2.args) >= 2 and c2.args[1] is c1
            if not ok:
                return None
    return True


def _under_not_secure(f, call, parents):
    """Is `call` inside the body of an `if not secure:` whose `secure` is the function's own parameter
    that also flows into get_base_environment(secure, ..)?"""
    n = call
    while id(n) in parents:
        p = parents[id(n)]
        if isinstance(p, ast.If) and n in p.body:
            t = p.test
            if isinstance(t, ast.UnaryOp) and isinstance(t.op, ast.Not) and isinstance(t.operand, ast.Name) \
                    and t.operand.id in f.params:
                secure_param = t.operand.id
                # the same parameter must be what the base environment is built from, unmodified
                passes = False
                for c in ast.walk(f.node):
                    if isinstance(c, ast.Call) and norm(c.func).endswith("get_base_environment") and c.args \
                            and isinstance(c.args[0], ast.Name) and c.args[0].id == secure_param:
                        passes = True
                stores = [x for x in ast.walk(f.node) if isinstance(x, ast.Name)
                          and x.id == secure_param and isinstance(x.ctx, ast.Store)]
                return passes and not stores
        n = p
    return False


# --------------------------------------------------------------------------------------------------

def flag(ctx, cg):
    model = ctx.model
    gbe = model.func(P, "functions", "get_base_environment")
    # every occurrence of the flag literal
    for f in model.all_funcs(True):
        parents = {}
        for n in ast.walk(f.node):
            for ch in ast.iter_child_nodes(n):
                parents[id(ch)] = n
        for n in ast.walk(f.node):
            if isinstance(n, ast.Constant) and n.value == FLAG:
                par = parents.get(id(n))
                ok, why = False, "unexpected use of the secure-mode flag name"
                if isinstance(par, ast.Call) and par.args and par.args[0] is n:
                    fn = norm(par.func)
                    if fn.endswith(".get") or fn.endswith(".isDefined"):
                        ok = True
                    elif fn.endswith(".put") and f is gbe:
                        v = norm(par.args[1]) if len(par.args) > 1 else ""
                        secure_param = gbe.params[0] if gbe.params else "secure"
                        ok = v == f"ValueBoolean.fromval({secure_param})"
                        why = "the flag must be stored from the `secure` parameter unchanged"
                    else:
                        why = f"the flag is written through {fn}"
                ctx.check("C09.flag.literal", f, par if par is not None else n, ok, why)
    # `secure` parameter of get_base_environment is not rebound; default is True
    if gbe.params[:1] != ["secure"]:
        ctx.broken("get_base_environment", "first parameter is not `secure`")
    stores = [n for n in ast.walk(gbe.node) if isinstance(n, ast.Name) and n.id == "secure"
              and isinstance(n.ctx, ast.Store)]
    ctx.check("C09.flag.param", gbe, gbe.node, not stores, "`secure` is rebound inside get_base_environment",
              expr="secure parameter")
    d = gbe.node.args.defaults
    ctx.check("C09.flag.param", gbe, gbe.node,
              bool(d) and isinstance(d[0], ast.Constant) and d[0].value is True,
              "get_base_environment no longer defaults to secure=True", expr="secure=True default")
    interp_init = model.method(P, "Interpreter", "__init__")
    di = interp_init.node.args.defaults
    ctx.check("C09.flag.param", interp_init, interp_init.node,
              bool(di) and isinstance(di[0], ast.Constant) and di[0].value is True,
              "Interpreter() no longer defaults to secure=True", expr="secure=True default")

    # Environment.set callers, and the constructors guarding them
    env = model.cls(P, "Environment")
    set_m, put_m = env.methods.get("set"), env.methods.get("put")
    if not set_m or not put_m:
        ctx.broken("Environment", "put/set missing")
    for f in model.all_funcs(True):
        for r in cg.refs(f):
            if r.kind in ("dispatch", "selfcall") and r.target == "set" and r.is_call:
                ok = f.qual in ("NodeAssign.evaluate", "NodeAssignDestructuring.evaluate", "Environment.set")
                ctx.check("C09.flag.set", f, r.node, ok, "Environment.set called from an unexpected place")
    for cname, field in (("NodeAssign", "identifier"), ("NodeAssignDestructuring", "identifiers")):
        init = model.method(P, cname, "__init__")
        ok = _ctor_rejects_system_names(init, field)
        ctx.check("C09.flag.ctor", init, init.node, ok,
                  f"{cname}.__init__ does not reject checkerlang_* names on every path before storing them",
                  expr=f"{cname}.__init__ guard")
    # who stores into an environment map
    for f in model.all_funcs(True):
        for n in ast.walk(f.node):
            tgt = None
            if isinstance(n, ast.Assign):
                tgt = n.targets
            elif isinstance(n, ast.AugAssign):
                tgt = [n.target]
            elif isinstance(n, ast.Delete):
                tgt = n.targets
            for t in tgt or []:
                if isinstance(t, ast.Subscript) and isinstance(t.value, ast.Attribute) and t.value.attr == "map":
                    ok = f.cls is env and f.name in ("put", "set", "remove")
                    ctx.check("C09.flag.map", f, n, ok, "environment map written outside Environment.put/set/remove")
            if isinstance(n, ast.Attribute) and n.attr == "map" and isinstance(n.ctx, ast.Load):
                if not (f.cls is env):
                    par_ok = False
                    ctx.check("C09.flag.map", f, n, par_ok, "environment map accessed outside class Environment")
    # Environment.put / set write only their own map or delegate to the parent
    for n in ast.walk(set_m.node):
        if isinstance(n, ast.Assign):
            ctx.check("C09.flag.map", set_m, n, norm(n.targets[0]) == "self.map[name]",
                      "Environment.set writes something else than self.map[name]")
    # root environments
    gne = model.func(P, "functions", "get_none_environment")
    for f in model.all_funcs(True):
        for r in cg.refs(f):
            if r.kind == "ctor" and r.target is env and r.is_call:
                call = r.call
                if not call.args and not call.keywords:
                    ctx.check("C09.flag.root", f, call, f is gne,
                              "parent-less Environment() created outside get_none_environment")
                else:
                    ctx.check("C09.flag.root", f, call, f.qual == "Environment.newEnv" and norm(call) == "Environment(self)",
                              "child environment created in an unexpected way")
            if r.kind == "func" and r.target is gne:
                ctx.check("C09.flag.root", f, r.node, f is gbe,
                          "get_none_environment called outside get_base_environment")
            if r.kind == "dispatch" and r.target == "withParent" and r.is_call:
                ctx.check("C09.flag.root", f, r.node, f.qual == "Interpreter.interpret",
                          "environment re-parented outside Interpreter.interpret")
    # modules evaluated under one base flag must not be visible to an interpreter built with another:
    # the module cache and load stack are per-root instance state, never class-level
    einit = env.methods.get("__init__")
    t_ = norm(einit.node).replace("\n", " ") if einit else ""
    ok = "if self.parent is None: self.modules = dict() self.modulestack = []" in t_
    ctx.check("C09.flag.modcache", einit or "Environment.__init__", einit.node if einit else None, ok,
              "the module cache is not per-root instance state: a secure interpreter could be handed module "
              "environments (with OS built-ins bound) that a non-secure interpreter of the same process loaded",
              expr="per-root module cache", site="Environment.__init__: module cache created per root environment")
    for nm, val in env.class_attrs.items():
        mutable = isinstance(val, (ast.Dict, ast.List, ast.Set)) or (isinstance(val, ast.Call) and norm(val.func) in ("dict", "list", "set"))
        ctx.check("C09.flag.modcache", f"class Environment", val, not mutable,
                  f"class-level mutable attribute Environment.{nm} is shared by every interpreter in the process",
                  expr=f"Environment.{nm}", site=f"Environment.{nm}: not a shared container")
    # the gate reads the root through getBase(), which walks parents to the end
    gb = env.methods.get("getBase")
    ok = gb is not None and "while current.parent" in norm(gb.node) and "return current" in norm(gb.node)
    ctx.check("C09.flag.root", gb or "Environment.getBase", gb.node if gb else None, ok,
              "Environment.getBase no longer walks to the parent-less root", expr="getBase walk")
    # Interpreter: session environment is a child of the base; insecure `run` only under `not secure`
    init = model.method(P, "Interpreter", "__init__")
    txt = norm(init.node)
    ctx.check("C09.flag.root", init, init.node, "self.environment = self.base_environment.newEnv()" in txt,
              "the session environment is not a child of the base environment", expr="session env")


def _ctor_rejects_system_names(init, field):
    """In __init__: before `self.<field> = <param>` every path has tested
    <name>.startswith('checkerlang_') with the true edge raising CklSyntaxError."""
    body = init.node.body
    guard_seen = False
    for st in body:
        if isinstance(st, ast.Assign) and norm(st.targets[0]) == f"self.{field}":
            return guard_seen
        for n in ast.walk(st):
            if isinstance(n, ast.If):
                tests = n.test.values if isinstance(n.test, ast.BoolOp) and isinstance(n.test.op, ast.Or) \
                    else [n.test]
                if any(isinstance(t, ast.Call) and norm(t).endswith(".startswith('checkerlang_')")
                       and isinstance(t.func, ast.Attribute) and isinstance(t.func.value, ast.Name)
                       for t in tests):
                    first = n.body[0] if n.body else None
                    if isinstance(first, ast.Raise) and "CklSyntaxError" in norm(first.exc):
                        # top-level if, or inside a for over the identifiers parameter at top level
                        if n is st:
                            guard_seen = True
                        elif isinstance(st, ast.For) and n in st.body and norm(st.iter) == field \
                                and not any(isinstance(x, (ast.Break, ast.Return)) for x in ast.walk(st)):
                            guard_seen = True
    return False


# --------------------------------------------------------------------------------------------------

def ckl(ctx, insecure):
    table = ctx.binder_table
    for fn, (src, _) in sorted(ctx.model.ckl_modules.items()):
        try:
            toks = cklsrc.tokenize(src)
        except cklsrc.CklTokenError as e:
            ctx.broken(f"modules/{fn}", f"independent tokenizer failed: {e}")
        lit, nonlit = cklsrc.bind_native_calls(toks)
        for native, alias, line in lit:
            ok = native in table and (alias is None or not alias.startswith("checkerlang_"))
            ctx.ob("C09.ckl.bind", f"modules/{fn}: bind_native({native!r}{', ' + repr(alias) if alias else ''})", ok)
            if not ok:
                ctx.fail("C09.ckl.bind", f"modules/{fn}", None,
                         f"bind_native names {native!r} (alias {alias!r}) which the binder does not know "
                         f"or aliases a system name", expr=f"bind_native({native!r}, {alias!r})",
                         file=f"src/ckl/modules/{fn}", line=line)
        for line, txt in nonlit:
            ctx.ob("C09.ckl.bind", f"modules/{fn}:{line}: non-literal bind_native use", False)
            ctx.fail("C09.ckl.bind", f"modules/{fn}", None, "bind_native used with non-literal arguments "
                     "in a bundled module", expr=txt, file=f"src/ckl/modules/{fn}", line=line)
        # no bundled module defines or assigns the flag
        for i, t in enumerate(toks):
            if t.kind == "id" and t.text == FLAG:
                prev = toks[i - 1] if i else None
                nxt = toks[i + 1] if i + 1 < len(toks) else None
                writes = (prev is not None and prev.is_id("def")) or \
                         (nxt is not None and nxt.kind == "p" and nxt.text in ("=", "+=", "-=", "*=", "/=", "%="))
                ctx.check("C09.ckl.flag", f"modules/{fn}", None, not writes,
                          "bundled module defines or assigns checkerlang_secure_mode",
                          expr=f"{fn}:{t.line} {FLAG}", site=f"modules/{fn}:{t.line} reads {FLAG}")
            if t.kind == "str" and t.text == FLAG:
                ctx.check("C09.ckl.flag", f"modules/{fn}", None, False,
                          "bundled module mentions the flag name as a string (alias/bind route)",
                          expr=f"{fn}:{t.line} '{FLAG}'")
