"""C10 - Interpreter sessions keep definitions and survive failed calls unchanged.

Decided statically:
  C10.pair     module-load stack: on every path through `require` - normal, failing, or leaving through an
               exception at any statement - the net effect is zero pushes (every push is popped exactly once);
               pushModuleStack itself pushes exactly once on normal return and not at all when it raises;
               popModuleStack pops exactly once
  C10.cache    the module cache is written only after the module body has been evaluated successfully, under
               the key that is looked up, with the environment the body ran in
  C10.session  the session environment is created once (constructor) and every interpret() without explicit
               environment evaluates in it
  C10.globals  no interpreter state lives in module-level or class-level mutable objects: the module cache and
               the load stack are per-root instance attributes; the only `global` is the documented PRNG seed
Not decided: histories as such (sequences of calls with observed results).
"""
import ast

from ..cfg import CFG
from ..core import norm
from ..pathcount import count_events, must_pass, stmt_calls

P = "C10"
EXPLANATION = __doc__
TECHNIQUE = "counting dataflow over CFGs with exception and finally edges (push/pop pairing), must-pass " \
            "dominance (cache after evaluation), who-may-write enumeration for shared mutable state"
LEVEL_TEXT = (
    "Static path analysis of the state that persists between interpret() calls: the module-load stack is shown "
    "balanced on every control-flow path of require including all exceptional exits, the module cache is shown "
    "to be written only after successful evaluation, the session environment is shown to be unique per "
    "interpreter and no interpreter state is shared through module-level or class-level objects. This covers "
    "every history at once for these mechanisms; it does not execute histories.")
LEVEL_NOTE = ("Trusted: CPython try/finally semantics as encoded in the CFG builder; any statement containing a "
              "call, subscript or division is assumed able to raise.")
ASSUMPTIONS = ["list.append / list.pop on the load stack do not themselves fail"]
FLOORS = {"C10.pair": 6, "C10.cache": 3, "C10.session": 3, "C10.globals": 8}


def _counts_at_exits(func, delta):
    g = CFG(func.node, implicit_exc=True)
    st = count_events(g, delta)
    return g, st.get(g.exit.id), st.get(g.raise_exit.id), st


def run(ctx):
    model = ctx.model
    env = model.cls(P, "Environment")
    push = model.method(P, "Environment", "pushModuleStack")
    pop = model.method(P, "Environment", "popModuleStack")
    req = model.method(P, "NodeRequire", "evaluate")

    # ---------------------------------------------------------------- push / pop summaries
    from .common import root_field_pred
    preds = [root_field_pred(model, push, "modulestack"), root_field_pred(model, pop, "modulestack")]

    def is_stack(e):
        return any(p(e) for p in preds)

    def is_append(c):
        return isinstance(c.func, ast.Attribute) and c.func.attr in ("append", "insert", "extend") \
            and is_stack(c.func.value)

    def is_pop(c):
        return isinstance(c.func, ast.Attribute) and c.func.attr == "pop" and is_stack(c.func.value)

    def delta_push(node, label, succ):
        if label == "exc":
            return 0
        return 1 if stmt_calls(node, is_append) else 0

    g, normal, exc, _ = _counts_at_exits(push, delta_push)
    ctx.check("C10.pair", push, None, normal == frozenset({1}),
              f"pushModuleStack pushes {sorted(normal or [])} times on normal return (expected exactly once)",
              expr="push on return", site="Environment.pushModuleStack: exactly one push on normal return")
    ctx.check("C10.pair", push, None, exc in (None, frozenset({0})),
              f"pushModuleStack can raise after having pushed ({sorted(exc or [])}): the rejected identifier "
              f"stays on the load stack", expr="push on raise",
              site="Environment.pushModuleStack: nothing pushed when it raises")
    # the cycle test precedes the push and reads the same stack
    from ..facts import must_facts as _mf
    gp = CFG(push.node, implicit_exc=False)
    fp = _mf(gp)
    ident = push.params[1]
    tests = [n for n in ast.walk(push.node) if isinstance(n, ast.Compare) and len(n.ops) == 1
             and isinstance(n.ops[0], ast.In) and norm(n.left) == ident and is_stack(n.comparators[0])]
    ok = len(tests) == 1
    if ok:
        ttxt = norm(tests[0])
        for node in gp.nodes:
            if stmt_calls(node, is_append):
                ok = ok and (ttxt, False) in fp.get(node.id, frozenset())
    ctx.check("C10.pair", push, None, ok, "cycle test is not `moduleidentifier in base.modulestack` on the root",
              expr="cycle test", site="Environment.pushModuleStack: membership test on the root's stack")

    def delta_pop(node, label, succ):
        if label == "exc":
            return 0
        return 1 if stmt_calls(node, is_pop) else 0

    g, normal, exc, _ = _counts_at_exits(pop, delta_pop)
    ctx.check("C10.pair", pop, None, normal == frozenset({1}),
              f"popModuleStack pops {sorted(normal or [])} times", expr="pop count",
              site="Environment.popModuleStack: exactly one pop")
    ok = any(isinstance(c, ast.Call) and is_pop(c) and not c.args for c in ast.walk(pop.node))
    ctx.check("C10.pair", pop, None, ok, "popModuleStack does not pop the root's stack", expr="pop target",
              site="Environment.popModuleStack: pops the root's stack")

    # ---------------------------------------------------------------- pairing in require
    def is_push_call(c):
        return isinstance(c.func, ast.Attribute) and c.func.attr == "pushModuleStack"

    def is_pop_call(c):
        return isinstance(c.func, ast.Attribute) and c.func.attr == "popModuleStack"

    def delta_req(node, label, succ):
        d = 0
        if stmt_calls(node, is_push_call) and label != "exc":
            d += 1
        if stmt_calls(node, is_pop_call):
            d -= 1
        return d

    g, normal, exc, st = _counts_at_exits(req, delta_req)
    n_push = sum(1 for n in g.nodes if stmt_calls(n, is_push_call))
    n_pop = sum(1 for n in g.nodes if stmt_calls(n, is_pop_call))
    if n_push == 0:
        ctx.broken("NodeRequire.evaluate", "no pushModuleStack call found")
    ctx.check("C10.pair", req, None, normal == frozenset({0}),
              f"require can return with a net stack effect of {sorted(normal or [])} (expected 0)",
              expr="net effect on return", site="NodeRequire.evaluate: balanced on every normal path")
    ctx.check("C10.pair", req, None, exc == frozenset({0}),
              f"require can leave through an exception with a net stack effect of {sorted(exc or [])}: a failed "
              f"require leaves its identifier on the load stack and every later require of it reports a bogus "
              f"circular dependency", expr="net effect on exception",
              site=f"NodeRequire.evaluate: balanced on every exceptional path ({n_push} push site, {n_pop} pop copies)")

    # ---------------------------------------------------------------- cache after evaluation
    stores = []
    for n in g.nodes:
        a = n.ast
        if isinstance(a, ast.Assign) and isinstance(a.targets[0], ast.Subscript) \
                and norm(a.targets[0].value) == "modules":
            stores.append(n)
    if not stores:
        ctx.broken("NodeRequire.evaluate", "module cache store `modules[...] = ...` not found")

    def tag(node, label):
        if label == "exc":
            return None
        a = node.ast
        if a is None or node.kind == "for":
            return None
        for x in ast.walk(a):
            if isinstance(x, ast.Call) and isinstance(x.func, ast.Attribute) and x.func.attr == "evaluate" \
                    and len(x.args) == 1:
                return "evaluated:" + norm(x.args[0])
            if isinstance(x, ast.Call) and norm(x.func).endswith("parse_script"):
                return "parsed"
        return None

    passed = must_pass(g, tag)
    lookups = [norm(n.test.comparators[0]) + "[" + norm(n.test.left) + "]" for n in ast.walk(req.node)
               if isinstance(n, ast.If) and isinstance(n.test, ast.Compare) and isinstance(n.test.ops[0], ast.In)
               and norm(n.test.comparators[0]) == "modules"]
    for n in stores:
        key = norm(n.ast.targets[0].slice)
        val = norm(n.ast.value)
        have = passed.get(n.id, frozenset())
        ctx.check("C10.cache", req, n.ast, f"evaluated:{val}" in have,
                  "the module cache is written before the module body has been evaluated in that environment: a "
                  "module that fails while loading stays cached half-initialised",
                  site="NodeRequire.evaluate: cache store dominated by node.evaluate(moduleEnv)")
        ctx.check("C10.cache", req, n.ast, f"modules[{key}]" in lookups,
                  f"the cache is written under `{key}` but looked up under {lookups}",
                  site="NodeRequire.evaluate: cache key = lookup key")
    reads = [n for n in ast.walk(req.node) if isinstance(n, ast.Subscript) and isinstance(n.ctx, ast.Load)
             and norm(n.value) == "modules"]
    ok = all(f"modules[{norm(r.slice)}]" in lookups for r in reads) and reads
    ctx.check("C10.cache", req, None, bool(ok), "cache read is not under the looked-up key", expr="cache read",
              site="NodeRequire.evaluate: cache read under the looked-up key")

    # ---------------------------------------------------------------- session environment
    interp = model.cls(P, "Interpreter")
    writers = []
    for f in model.all_funcs(True):
        for n in ast.walk(f.node):
            if isinstance(n, ast.Attribute) and isinstance(n.ctx, ast.Store) and n.attr in ("environment", "base_environment") \
                    and norm(n.value) in ("self", "interpreter") and (f.cls is interp or "nterpreter" in norm(n.value)):
                writers.append((f, n))
    for f, n in writers:
        ctx.check("C10.session", f, n, f.qual == "Interpreter.__init__",
                  "the session/base environment is replaced after construction")
    ii = model.method(P, "Interpreter", "interpret")
    from ..facts import must_facts, nodes_containing
    g = CFG(ii.node, implicit_exc=False)
    facts = must_facts(g)
    hostp = ii.params[3] if len(ii.params) > 3 else "environment"

    def is_eval(x):
        return isinstance(x, ast.Call) and isinstance(x.func, ast.Attribute) and x.func.attr == "evaluate" \
            and len(x.args) == 1
    evals = nodes_containing(g, is_eval)
    parsed = {norm(n.targets[0]) for n in ast.walk(ii.node) if isinstance(n, ast.Assign) and len(n.targets) == 1
              and "parse_script(" in norm(n.value)}
    evals = [(nd, c) for nd, c in evals if "parse_script(" in norm(c.func.value) or norm(c.func.value) in parsed]
    ctx.check("C10.session", ii, None, len(evals) == 1 and isinstance(evals[0][1].args[0], ast.Name),
              "interpret() does not evaluate the parsed script once, in an environment variable",
              expr="evaluate(env)", site="Interpreter.interpret: parse_script(..).evaluate(env)")
    if len(evals) == 1 and isinstance(evals[0][1].args[0], ast.Name):
        ev = evals[0][1].args[0].id

        def none_fact(fs):
            """True: host environment known absent, False: known present, None: unknown"""
            for txt, pol in fs:
                if txt in (f"{hostp} is None", f"{hostp} == None", f"not {hostp}"):
                    return pol
                if txt in (f"{hostp} is not None", f"{hostp} != None", hostp):
                    return not pol
            return None
        sess, host, other = [], [], []
        for nd in g.nodes:
            a = nd.ast
            if nd.kind == "stmt" and isinstance(a, ast.Assign) and len(a.targets) == 1 and norm(a.targets[0]) == ev:
                k = none_fact(facts.get(nd.id, frozenset()))
                v = norm(a.value)
                if v == "self.environment" and k is True:
                    sess.append(a)
                elif v == hostp and k is False:
                    host.append(a)
                else:
                    other.append(a)
        if ev == hostp:
            ok = bool(sess) and not other
        else:
            ok = bool(sess) and bool(host) and not other
        ctx.check("C10.session", ii, other[0] if other else None, ok,
                  "interpret() without explicit environment does not use the session environment (or with one, not "
                  "the caller's)", expr="default env", site="Interpreter.interpret: default env is self.environment")
    for n in ast.walk(ii.node):
        if isinstance(n, ast.Call) and isinstance(n.func, ast.Attribute) and n.func.attr in ("newEnv",):
            ctx.check("C10.session", ii, n, False, "interpret() evaluates in a fresh child: definitions would be lost")

    # a host environment handed to interpret() is attached below the session environment for the duration of the call
    # only: never the interpreter's own base (a cycle: every lookup loops), and detached again on every way out
    # (otherwise the next call finds the base as root and re-parents it, and a second interpreter given the same
    # environment becomes the parent of this one's base)
    def _restores(arg, aliases):
        """the detach hands back no parent, or the parent saved before the attach"""
        if isinstance(arg, ast.Constant) and arg.value is None:
            return True
        if not isinstance(arg, ast.Name):
            return False
        vals = [norm(n.value) for n in ast.walk(ii.node) if isinstance(n, ast.Assign) and len(n.targets) == 1
                and norm(n.targets[0]) == arg.id]
        return bool(vals) and all(v == "None" or v in {f"{a}.parent" for a in aliases} for v in vals) \
            and any(v != "None" for v in vals)

    def is_attach(x):
        return isinstance(x, ast.Call) and isinstance(x.func, ast.Attribute) and x.func.attr == "withParent" \
            and len(x.args) == 1 and norm(x.args[0]) in ("self.environment", "self.base_environment")
    attaches = nodes_containing(g, is_attach)
    if not attaches:
        ctx.broken("Interpreter.interpret", "no `<root>.withParent(self.environment)` attach found")
    finals = [st for t_ in ast.walk(ii.node) if isinstance(t_, ast.Try) for st in t_.finalbody]
    for node, call in attaches:
        recv = norm(call.func.value)
        fs = facts.get(node.id, frozenset())
        guarded = any(pol and txt.replace("(", "").replace(")", "") in
                      (f"{recv} is not self.base_environment", f"self.base_environment is not {recv}",
                       f"{recv} != self.base_environment")
                      for txt, pol in fs) or \
            any((not pol) and txt in (f"{recv} is self.base_environment", f"{recv} == self.base_environment")
                for txt, pol in fs)
        ctx.check("C10.session", ii, call, guarded,
                  f"`{recv}` is attached below the session environment without excluding the interpreter's own base "
                  f"environment: when the caller's environment already hangs below this interpreter (a second call "
                  f"with it, or interpreter.environment.newEnv()) the base becomes its own ancestor and every name "
                  f"lookup loops forever", expr="attach excludes own base",
                  site="Interpreter.interpret: attach of the host environment excludes the own base")
        # what is attached is the ROOT of the caller's chain (attaching an inner environment would cut it off from
        # its own enclosing environments for the duration of the call)
        params = set(ii.params)
        rootok = None
        if recv in params:
            rootok = False
        else:
            assigns = [n for n in ast.walk(ii.node) if isinstance(n, ast.Assign) and len(n.targets) == 1
                       and norm(n.targets[0]) == recv]
            vals = [norm(n.value) for n in assigns]
            walks = [w for w in ast.walk(ii.node) if isinstance(w, ast.While) and f"{recv}.parent" in norm(w.test)
                     and any(isinstance(b, ast.Assign) and norm(b.targets[0]) == recv
                             and norm(b.value) == f"{recv}.parent" for b in w.body)]
            if assigns and all(v in params or v == f"{recv}.parent" or v.endswith(".getBase()") for v in vals) \
                    and (walks or any(v.endswith(".getBase()") and v.split(".")[0] in params for v in vals)):
                rootok = True
        if rootok is None:
            ctx.broken("Interpreter.interpret", f"cannot tell whether `{recv}` is the root of the host environment's chain")
        ctx.check("C10.session", ii, call, rootok,
                  f"`{recv}` is the caller's environment itself, not the root of its chain: the environments "
                  f"enclosing it are cut off while the script runs", expr="attach at the chain root",
                  site="Interpreter.interpret: the host environment is attached at the root of its chain")
        # aliases of the attached root: `attached = <recv>` in the same block
        aliases = {recv}
        for n in ast.walk(ii.node):
            if isinstance(n, ast.Assign) and norm(n.value) == recv and len(n.targets) == 1 \
                    and isinstance(n.targets[0], ast.Name):
                aliases.add(n.targets[0].id)
        detached = False
        for st in finals:
            for x in ast.walk(st):
                if isinstance(x, ast.Call) and isinstance(x.func, ast.Attribute) and x.func.attr == "withParent" \
                        and len(x.args) == 1 and norm(x.func.value) in aliases and _restores(x.args[0], aliases):
                    # the guards between the finally block and the detach may test the attached root only
                    tests = []
                    def find(body, acc):
                        for b in body:
                            if any(y is x for y in ast.walk(b)):
                                if isinstance(b, ast.If):
                                    inb = any(y is x for bb in b.body for y in ast.walk(bb))
                                    find(b.body if inb else b.orelse, acc + [b.test])
                                else:
                                    tests.extend(acc)
                                return
                    find([st], [])
                    names = {y.id for t_ in tests for y in ast.walk(t_) if isinstance(y, ast.Name)}
                    if names <= aliases | {norm(x.args[0])} and not any(isinstance(y, ast.Call) for t_ in tests for y in ast.walk(t_)):
                        detached = True
        ctx.check("C10.session", ii, call, detached,
                  f"the host environment attached here is not detached again (`.withParent(None)` on it in a finally "
                  f"block, guarded by nothing but the attached root itself): the call leaves the caller's environment "
                  f"re-parented, the next call with it re-parents the base, and another interpreter given it becomes "
                  f"an ancestor of this one", expr="attach is undone in finally",
                  site="Interpreter.interpret: the attached host environment is detached in finally")

    # ---------------------------------------------------------------- shared mutable state
    init = env.methods["__init__"]
    fresh = {}
    for n in ast.walk(init.node):
        if isinstance(n, ast.Assign) and len(n.targets) == 1 and norm(n.targets[0]) in ("self.modules", "self.modulestack"):
            fresh[norm(n.targets[0])] = norm(n.value) in ("dict()", "{}", "[]", "list()")
    ok = fresh.get("self.modules") is True and fresh.get("self.modulestack") is True \
        and "modules" not in env.class_attrs and "modulestack" not in env.class_attrs
    ctx.check("C10.globals", init, None, ok,
              "module cache and load stack are not created per root environment in Environment.__init__",
              expr="per-root state", site="Environment.__init__: modules / modulestack created per root")
    MUTABLE_CALLS = {"dict", "list", "set", "defaultdict", "OrderedDict", "deque"}
    MUT_ = {"append", "extend", "insert", "remove", "pop", "clear", "sort", "update", "add", "discard",
            "setdefault", "popitem", "reverse"}
    READ_ONLY_METHODS = {"get", "items", "keys", "values", "index", "count", "copy"}
    for c in model.classes.values():
        for name, val in c.class_attrs.items():
            mutable = isinstance(val, (ast.List, ast.Dict, ast.Set, ast.ListComp, ast.DictComp, ast.SetComp)) or \
                (isinstance(val, ast.Call) and norm(val.func).split(".")[-1] in MUTABLE_CALLS)
            if not mutable:
                ctx.ob("C10.globals", f"{c.module.rel}: class attribute {c.name}.{name} is not a container", True)
                continue
            # a class-level container is shared by every instance: harmless as a constant table, a channel between
            # interpreters as soon as anything can write to it - directly, or after it escaped (returned, passed
            # on, aliased)
            why = None
            for f in model.all_funcs(True):
                parents = {}
                for n in ast.walk(f.node):
                    for ch in ast.iter_child_nodes(n):
                        parents[id(ch)] = n
                for n in ast.walk(f.node):
                    if not (isinstance(n, ast.Attribute) and n.attr == name):
                        continue
                    par = parents.get(id(n))
                    if isinstance(n.ctx, ast.Store):
                        continue        # re-binding the attribute on an instance does not touch the shared object
                    if isinstance(par, ast.Subscript) and par.value is n:
                        if isinstance(par.ctx, (ast.Store, ast.Del)):
                            why = f"written by subscript in {f.qual}"
                        continue
                    if isinstance(par, ast.Attribute) and par.value is n:
                        gp = parents.get(id(par))
                        if isinstance(gp, ast.Call) and gp.func is par:
                            if par.attr in MUT_:
                                why = f"mutated with .{par.attr}() in {f.qual}"
                            elif par.attr not in READ_ONLY_METHODS:
                                why = f"handed to .{par.attr}() in {f.qual}"
                            continue
                    if isinstance(par, ast.Compare) and n in par.comparators:
                        continue
                    if isinstance(par, (ast.For, ast.comprehension)) and par.iter is n:
                        continue
                    if isinstance(par, ast.Call) and n in par.args and norm(par.func) in ("len", "sorted", "list", "tuple", "set", "dict", "iter", "enumerate"):
                        continue
                    why = why or f"escapes in {f.qual} ({norm(par)[:40] if par is not None else ''})"
            ctx.check("C10.globals", f"class {c.name}", val, why is None,
                      f"class-level mutable container {c.name}.{name}: shared by every instance (and every "
                      f"interpreter) in the process, and {why}", expr=f"{c.name}.{name} = {norm(val)[:40]}",
                      site=f"{c.module.rel}: class attribute {c.name}.{name} (container) is only read")
    allowed_globals = {("FuncRandom.seededRandom", "seed"), ("FuncSetSeed.execute", "seed")}
    for f in model.all_funcs():
        for n in ast.walk(f.node):
            if isinstance(n, (ast.Global, ast.Nonlocal)):
                for nm in n.names:
                    ctx.check("C10.globals", f, n, (f.qual, nm) in allowed_globals,
                              f"`global {nm}`: interpreter state shared across instances", expr=f"global {nm}")
    from ..callgraph import local_names
    MUT = {"append", "extend", "insert", "remove", "pop", "clear", "sort", "update", "add", "discard",
           "setdefault", "popitem", "reverse"}
    for m in model.modules.values():
        globs = set(m.globals_assigned)
        for f in m.all_funcs():
            locs = local_names(f.node)
            for n in ast.walk(f.node):
                nm = None
                if isinstance(n, ast.Call) and isinstance(n.func, ast.Attribute) and n.func.attr in MUT \
                        and isinstance(n.func.value, ast.Name):
                    nm = n.func.value.id
                if isinstance(n, (ast.Assign, ast.AugAssign, ast.Delete)):
                    tg = n.targets if isinstance(n, (ast.Assign, ast.Delete)) else [n.target]
                    for t_ in tg:
                        if isinstance(t_, (ast.Subscript, ast.Attribute)) and isinstance(t_.value, ast.Name):
                            if t_.value.id in globs and t_.value.id not in locs and not isinstance(t_, ast.Attribute):
                                nm = t_.value.id
                if nm and nm in globs and nm not in locs:
                    ctx.check("C10.globals", f, n, False,
                              f"module-level object `{nm}` is mutated at run time: state shared by all interpreters")
        for name in sorted(globs):
            ctx.ob("C10.globals", f"{m.rel}: module-level `{name}` is never mutated from a function", True)
    # a default value is evaluated once, when the function is defined: a container there is one object for the whole
    # process.  It may be read, but once it is stored in an object, returned or mutated it is state that survives the
    # call and is shared by every interpreter.
    def _mutable_default(d):
        if isinstance(d, (ast.List, ast.Dict, ast.Set, ast.ListComp, ast.DictComp, ast.SetComp)):
            return True
        return isinstance(d, ast.Call) and not (isinstance(d.func, ast.Name) and d.func.id in
                                                ("int", "float", "str", "bool", "tuple", "frozenset", "bytes"))
    ndef = 0
    for f in model.all_funcs():
        a = f.node.args
        pos = a.posonlyargs + a.args
        pairs = list(zip(pos[len(pos) - len(a.defaults):], a.defaults)) + \
            [(k, d) for k, d in zip(a.kwonlyargs, a.kw_defaults) if d is not None]
        for prm, d in pairs:
            ndef += 1
            if not _mutable_default(d):
                continue
            leaks = None
            for n in ast.walk(f.node):
                if isinstance(n, ast.Assign) and any(isinstance(v, ast.Name) and v.id == prm.arg
                                                     for v in ast.walk(n.value)) \
                        and any(isinstance(t_, (ast.Attribute, ast.Subscript)) for t_ in n.targets):
                    leaks = (n, "stored in an object")
                elif isinstance(n, ast.Return) and n.value is not None and \
                        any(isinstance(v, ast.Name) and v.id == prm.arg for v in ast.walk(n.value)):
                    leaks = (n, "returned")
                elif isinstance(n, ast.Call) and isinstance(n.func, ast.Attribute) and n.func.attr in MUT \
                        and isinstance(n.func.value, ast.Name) and n.func.value.id == prm.arg:
                    leaks = (n, "mutated")
                elif isinstance(n, ast.Call) and any(isinstance(v, ast.Name) and v.id == prm.arg for v in n.args):
                    leaks = leaks or (n, "handed on")
                if leaks and leaks[1] != "handed on":
                    break
            ctx.check("C10.globals", f, leaks[0] if leaks else f.node, leaks is None,
                      f"parameter `{prm.arg}` has a container as default value (one object for the whole process) and "
                      f"it is {leaks[1] if leaks else ''}: state that survives the call and is shared by every "
                      f"interpreter", expr=f"default {prm.arg}={norm(d)[:30]}")
    ctx.ob("C10.globals", f"{ndef} parameter defaults inspected: none is a container that outlives the call", True)
