"""C11 - require binds exactly the requested names and evaluates each module once.

Decided statically (NodeRequire.evaluate, the import-list parser, the load stack):
  C11.env      module code runs in a fresh child of the *base* environment (cannot see the importer) and the
               parsed module body is evaluated in exactly that environment
  C11.once     parsing/evaluating module code happens only on a cache miss, and the result is cached under
               the key that was looked up (shared with C10.cache)
  C11.private  each of the three binding forms skips names starting with '_' before it binds anything
  C11.sinks    the only writes into the importer's scope are: every public name (unqualified), the alias
               `symbols[name]` for names listed in the import list, or one module object under the module name
  C11.cycle    a cycle is detected on the load stack before the module is looked up or loaded
  C11.import   the import-list parser resets the alias for every entry (an `as` name does not leak to the
               following entries) and stores `symbols[symbol] = alias-or-symbol`
Not decided: contents of generated module graphs; file-system search order.
"""
import ast

from ..cfg import CFG
from ..core import norm
from ..pathcount import must_pass

P = "C11"
EXPLANATION = __doc__
TECHNIQUE = "dataflow / must-pass-through on the CFG of NodeRequire.evaluate, enumeration of environment " \
            "writes, per-iteration definite assignment in the import-list loop"
LEVEL_TEXT = (
    "Static analysis of the require mechanism: decides which environment module code runs in, that loading is "
    "confined to the cache-miss branch, that the underscore filter dominates every binding, that the importer's "
    "scope is written only in the three intended ways, that the cycle test precedes loading and that import "
    "aliases do not leak between list entries. These hold for every module graph; generated module graphs "
    "themselves are not executed.")
LEVEL_NOTE = "Trusted: CPython ast; the CFG builder; NodeRequire keeps its three-form binding structure."
ASSUMPTIONS = []
FLOORS = {"C11.private": 3, "C11.sinks": 3, "C11.env": 2, "C11.once": 2, "C11.cycle": 2, "C11.import": 3}


def run(ctx):
    model = ctx.model
    req = model.method(P, "NodeRequire", "evaluate")
    g = CFG(req.node, implicit_exc=False)
    txt = norm(req.node)
    # names are discovered from the code, so that renaming locals does not disturb the rules
    if len(req.params) != 2:
        ctx.broken("NodeRequire.evaluate", "unexpected signature")
    IMP = req.params[1]
    TABLE = ENV = KEY = None
    for n in ast.walk(req.node):
        if isinstance(n, ast.Assign) and isinstance(n.targets[0], ast.Name):
            if norm(n.value) == f"{IMP}.getModules()":
                TABLE = n.targets[0].id
    # the module environment is whatever the parsed module body is evaluated in
    parsed = [n.targets[0].id for n in ast.walk(req.node) if isinstance(n, ast.Assign)
              and isinstance(n.targets[0], ast.Name) and norm(n.value.func if isinstance(n.value, ast.Call) else n.value)
              .endswith("parse_script")]
    for n in ast.walk(req.node):
        if isinstance(n, ast.Call) and isinstance(n.func, ast.Attribute) and n.func.attr == "evaluate" \
                and isinstance(n.func.value, ast.Name) and n.func.value.id in parsed and len(n.args) == 1 \
                and isinstance(n.args[0], ast.Name):
            ENV = n.args[0].id
    single = {}
    for n in ast.walk(req.node):
        if isinstance(n, ast.Assign) and isinstance(n.targets[0], ast.Name):
            single.setdefault(n.targets[0].id, []).append(n.value)

    def resolve(e, depth=0):
        """Inline single-assignment locals (one level of `base = environment.getBase()` style aliases)."""
        if depth > 3:
            return norm(e)
        t = norm(e)
        for nm, vals in single.items():
            if len(vals) == 1 and nm not in (ENV, TABLE, KEY, IMP) and isinstance(vals[0], (ast.Call, ast.Attribute)):
                import re as _r
                t = _r.sub(r"\b" + _r.escape(nm) + r"\b(?=\.)", resolve(vals[0], depth + 1), t)
        return t
    for n in ast.walk(req.node):
        if isinstance(n, ast.If) and isinstance(n.test, ast.Compare) and isinstance(n.test.ops[0], ast.In) \
                and TABLE and norm(n.test.comparators[0]) == TABLE and isinstance(n.test.left, ast.Name):
            KEY = n.test.left.id
    if not (TABLE and ENV and KEY):
        ctx.broken("NodeRequire.evaluate", f"module table / module environment / key not identified "
                                           f"({TABLE}, {ENV}, {KEY})")
    txt = txt.replace(IMP, "environment")
    import re as _re

    def canon(t):
        t = _re.sub(r"\b" + _re.escape(ENV) + r"\b", "moduleEnv", t)
        t = _re.sub(r"\b" + _re.escape(KEY) + r"\b", "moduleidentifier", t)
        t = _re.sub(r"\b" + _re.escape(TABLE) + r"\b", "modules", t)
        t = _re.sub(r"\b" + _re.escape(IMP) + r"\b", "environment", t)
        return t

    _norm = norm

    def norm_(x):
        return canon(_norm(x))

    txt = canon(_norm(req.node))

    # ---------------------------------------------------------------- C11.env
    envdefs = [n for n in ast.walk(req.node) if isinstance(n, ast.Assign) and norm_(n.targets[0]) == "moduleEnv"]
    vals = sorted({canon(resolve(n.value)) for n in envdefs})
    ok = set(vals) <= {"None", "modules[moduleidentifier]", "environment.getBase().newEnv()"} and \
        "environment.getBase().newEnv()" in vals
    ctx.check("C11.env", req, None, ok,
              f"module environment is built as {vals}: module code must run in a fresh child of the base "
              f"environment, not in (a child of) the importer's", expr="moduleEnv definitions",
              site="NodeRequire.evaluate: moduleEnv = environment.getBase().newEnv()")
    evals = [n for n in ast.walk(req.node) if isinstance(n, ast.Call) and isinstance(n.func, ast.Attribute)
             and n.func.attr == "evaluate"]
    body_evals = [e for e in evals if norm_(e.func.value) == "node"]
    ok = len(body_evals) == 1 and norm_(body_evals[0].args[0]) == "moduleEnv"
    ctx.check("C11.env", req, None, ok, "the parsed module body is not evaluated in moduleEnv",
              expr="node.evaluate(moduleEnv)", site="NodeRequire.evaluate: node.evaluate(moduleEnv)")
    ok = "node = ckl.parser.parse_script(modulesrc," in txt
    ctx.check("C11.env", req, None, ok, "module source is not parsed into `node`", expr="parse_script(modulesrc",
              site="NodeRequire.evaluate: node = parse_script(modulesrc, ..)")

    # ---------------------------------------------------------------- C11.once
    miss = None
    for n in ast.walk(req.node):
        if isinstance(n, ast.If) and norm_(n.test) == "moduleidentifier in modules":
            miss = n
    if miss is None:
        ctx.broken("NodeRequire.evaluate", "`if moduleidentifier in modules` not found")
    in_else = {id(x) for st in miss.orelse for x in ast.walk(st)}
    in_then = {id(x) for st in miss.body for x in ast.walk(st)}
    loaders = [n for n in ast.walk(req.node) if isinstance(n, ast.Call)
               and (norm_(n.func).endswith("parse_script") or (isinstance(n.func, ast.Attribute)
                    and n.func.attr == "evaluate" and norm_(n.func.value) == "node"))]
    ok = loaders and all(id(l) in in_else for l in loaders)
    ctx.check("C11.once", req, None, bool(ok),
              "module code is parsed/evaluated outside the cache-miss branch: a module can run more than once",
              expr="load only on miss", site="NodeRequire.evaluate: parse+evaluate only when not cached")
    ok = [norm_(s) for s in miss.body] == ["moduleEnv = modules[moduleidentifier]"]
    ctx.check("C11.once", req, None, ok, "cache hit does not simply reuse the cached environment",
              expr="cache hit", site="NodeRequire.evaluate: hit -> moduleEnv = modules[moduleidentifier]")
    stores = [n for n in ast.walk(req.node) if isinstance(n, ast.Assign) and isinstance(n.targets[0], ast.Subscript)
              and norm_(n.targets[0].value) == "modules"]
    ok = len(stores) == 1 and norm_(stores[0]) == "modules[moduleidentifier] = moduleEnv" and id(stores[0]) in in_else
    ctx.check("C11.once", req, None, ok, "cache store is not `modules[moduleidentifier] = moduleEnv` on the miss path",
              expr="cache store", site="NodeRequire.evaluate: miss -> modules[moduleidentifier] = moduleEnv")
    ok = "modules = environment.getModules()" in txt
    ctx.check("C11.once", req, None, ok, "the cache is not the root's module table", expr="getModules",
              site="NodeRequire.evaluate: modules = environment.getModules()")
    gm = model.method(P, "Environment", "getModules")
    ctx.check("C11.once", gm, None, norm_(gm.node.body[-1]) == "return self.getBase().modules",
              "getModules does not return the root's table", expr="getModules body",
              site="Environment.getModules: root's table")

    # ---------------------------------------------------------------- C11.private / C11.sinks
    puts = [n for n in ast.walk(req.node) if isinstance(n, ast.Call) and isinstance(n.func, ast.Attribute)
            and n.func.attr in ("put", "set", "addItem") and norm_(n.func.value) in ("environment", "obj")]
    loops = [n for n in ast.walk(req.node) if isinstance(n, ast.For) and norm_(n.iter) == "moduleEnv.getLocalSymbols()"]
    ctx.check("C11.private", req, None, len(loops) == 3, f"{len(loops)} binding loops found, expected 3",
              expr="binding loops", site="NodeRequire.evaluate: three binding loops over getLocalSymbols()")
    for lp in loops:
        first = lp.body[0] if lp.body else None
        var = norm_(lp.target)
        ok = isinstance(first, ast.If) and norm_(first.test) == f"{var}.startswith('_')" \
            and isinstance(first.body[0], ast.Continue)
        binds = [n for n in ast.walk(lp) if isinstance(n, ast.Call) and isinstance(n.func, ast.Attribute)
                 and n.func.attr in ("put", "addItem")]
        ctx.check("C11.private", req, lp, ok and bool(binds),
                  "a binding loop does not skip names starting with '_' before binding: private module symbols "
                  "leak into the importer", expr="for " + var + " in moduleEnv.getLocalSymbols(): " +
                  (norm_(first)[:60] if first is not None else ""),
                  site=f"binding loop -> {norm_(binds[0])[:60] if binds else '?'}")
    allowed = {
        "environment.put(name, moduleEnv.get(name))": "unqualified",
        "environment.put(self.symbols[name], moduleEnv.get(name))": "import list",
        "obj.addItem(name, val)": "module object member",
        "environment.put(modulename, obj)": "module object",
    }
    for p in puts:
        t = norm_(p)
        ctx.check("C11.sinks", req, p, t in allowed,
                  f"unexpected write into the importer's scope: {t}",
                  site=f"NodeRequire.evaluate: {t} [{allowed.get(t, '?')}]")
    for n in ast.walk(req.node):
        if isinstance(n, ast.Call) and isinstance(n.func, ast.Attribute) and n.func.attr in ("put", "set") \
                and norm_(n.func.value) not in ("environment",):
            ctx.check("C11.sinks", req, n, False, f"write into another environment: {norm_(n)}")
    # the import-list filter
    for lp in loops:
        if any("self.symbols[name]" in norm_(x) for x in ast.walk(lp)):
            ok = any(isinstance(s, ast.If) and norm_(s.test) == "name not in self.symbols"
                     and isinstance(s.body[0], ast.Continue) for s in lp.body)
            ctx.check("C11.sinks", req, lp, ok, "import-list form binds names that are not listed",
                      expr="name not in self.symbols", site="import form: only listed names are bound")
    # form selection
    sel = [n for n in ast.walk(req.node) if isinstance(n, ast.If) and norm_(n.test) == "self.unqualified"]
    ok = len(sel) == 1 and len(sel[0].orelse) == 1 and isinstance(sel[0].orelse[0], ast.If) \
        and norm_(sel[0].orelse[0].test) == "self.symbols"
    ctx.check("C11.sinks", req, None, ok, "binding form selection (unqualified / import list / module object) changed",
              expr="form selection", site="NodeRequire.evaluate: exactly one binding form runs")
    ok = "val.isObject() and val.isModule" in txt
    ctx.check("C11.sinks", req, None, ok, "module objects of other modules are re-exported", expr="no re-export",
              site="module object: nested module objects are not re-exported")

    # ---------------------------------------------------------------- C11.cycle
    def tag(node, label):
        a = node.ast
        if a is None or node.kind == "for" or label == "exc":
            return None
        for x in ast.walk(a):
            if isinstance(x, ast.Call) and isinstance(x.func, ast.Attribute) and x.func.attr == "pushModuleStack":
                return "pushed"
        return None

    passed = must_pass(g, tag)
    for node in g.nodes:
        a = node.ast
        if a is None:
            continue
        tst = a if node.kind != "for" else a.iter
        for x in ast.walk(tst):
            if isinstance(x, ast.Call) and (norm_(x.func).endswith("parse_script") or norm_(x.func) in (
                    "pkgutil.get_data", "open")):
                ctx.check("C11.cycle", req, x, "pushed" in passed.get(node.id, frozenset()),
                          "module source is read/parsed before the cycle test on the load stack",
                          site=f"NodeRequire.evaluate: {norm_(x.func)} after pushModuleStack")
    push = model.method(P, "Environment", "pushModuleStack")
    from .common import root_field_pred
    is_stack = root_field_pred(model, push, "modulestack")
    ok = any(isinstance(n, ast.If) and isinstance(n.test, ast.Compare) and len(n.test.ops) == 1
             and isinstance(n.test.ops[0], ast.In) and norm_(n.test.left) == push.params[1]
             and is_stack(n.test.comparators[0]) and n.body and isinstance(n.body[0], ast.Raise)
             and "CklRuntimeError" in norm_(n.body[0].exc) for n in ast.walk(push.node))
    ctx.check("C11.cycle", push, None, ok, "a repeated identifier on the load stack is not reported as an error",
              expr="cycle raise", site="Environment.pushModuleStack: raises on a repeated identifier")
    ok = "environment.pushModuleStack(moduleidentifier, self.pos)" in txt
    ctx.check("C11.cycle", req, None, ok, "require pushes something else than the module identifier",
              expr="push identifier", site="NodeRequire.evaluate: pushes moduleidentifier")

    # ---------------------------------------------------------------- C11.import (parser)
    import_rules(ctx, model)



def _fragment(stmts):
    f = ast.FunctionDef(name="_frag", args=ast.arguments(posonlyargs=[], args=[], kwonlyargs=[], kw_defaults=[],
                                                         defaults=[], vararg=None, kwarg=None),
                        body=stmts, decorator_list=[], returns=None, type_comment=None, lineno=1, col_offset=0)
    if hasattr(ast, "TypeVar"):
        f.type_params = []
    return f


def _is_match_ident(e):
    return isinstance(e, ast.Call) and norm(e.func) == "lexer.matchIdentifier"


def import_rules(ctx, model):
    """The `require <spec> [unqualified | import [a as x, b] | as name]` forms, decided on the paths of the code that
    parses them (wherever it lives: inline in parse_statement or in helpers it calls)."""
    from .common import resolve_static_call
    parser = model.module(P, "parser")
    ps = model.func(P, "parser", "parse_statement")
    # 1. the import-list loop: a `while` that stores D[k] = v per entry
    loops = []
    for f in parser.funcs.values():
        for n in ast.walk(f.node):
            if isinstance(n, ast.While) and "']'" in norm(n.test) and any(
                    isinstance(x, ast.Assign) and isinstance(x.targets[0], ast.Subscript) for x in ast.walk(n)) \
                    and any(_is_match_ident(x) for x in ast.walk(n)) and any(
                        isinstance(x, ast.Call) and norm(x.func) == "lexer.matchIf" and x.args
                        and norm(x.args[0]) == "'as'" for x in ast.walk(n)):
                loops.append((f, n))
    if len(loops) != 1:
        ctx.broken("parser.py", f"import-list loop not found ({len(loops)} candidates)")
    lf, loop = loops[0]
    g = CFG(_fragment(loop.body), implicit_exc=False)
    n_paths = 0
    pending = []
    for path in g.paths(max_paths=500):
        env, ids, as_taken, stores = {}, 0, False, []

        def ev(e):
            nonlocal ids
            if _is_match_ident(e):
                ids += 1
                return f"ID{ids}"
            if isinstance(e, ast.Name):
                return env.get(e.id, f"stale:{e.id}")
            if isinstance(e, ast.Constant):
                return repr(e.value)
            if isinstance(e, ast.BoolOp):
                vals = [ev(v) for v in e.values]
                st_ = [v for v in vals if v.startswith("stale:")]
                if st_:
                    return st_[0]
                if isinstance(e.op, ast.Or) and vals[0].startswith("ID"):
                    return vals[0]          # an identifier is a non-empty string: truthy
                return "unknown:" + norm(e)
            return "unknown:" + norm(e)

        for node, label in path:
            a = node.ast
            if a is None:
                continue
            if node.kind == "test":
                from .common import _conj
                for x, pol in _conj(a, label == "true"):
                    if isinstance(x, ast.Call) and norm(x.func) == "lexer.matchIf" and x.args \
                            and norm(x.args[0]) == "'as'" and pol:
                        as_taken = True
                continue
            if isinstance(a, ast.Assign) and len(a.targets) == 1:
                t = a.targets[0]
                if isinstance(t, ast.Name):
                    env[t.id] = ev(a.value)
                elif isinstance(t, ast.Subscript):
                    k = ev(t.slice)
                    v = ev(a.value)
                    stores.append((k, v, a))
        if not stores:
            continue
        n_paths += 1
        for k, v, a in stores[-1:]:
            for side, val in (("key", k), ("value", v)):
                if val.startswith("stale:"):
                    ctx.check("C11.import", lf, a, False,
                              f"`{val[6:]}` used by the import-list entry is not assigned on every path of the same loop "
                              f"iteration: an alias from an earlier entry leaks into later ones",
                              expr=f"{norm(a)} uses {val[6:]}", site=f"import list: `{val[6:]}` is (re)assigned in each iteration")
                elif val.startswith("unknown:"):
                    pending.append((lf.qual, f"import-list entry {side} `{val[8:]}` not understood"))
            if k.startswith(("stale:", "unknown:")) or v.startswith(("stale:", "unknown:")):
                continue
            want = ("ID1", "ID2") if as_taken else ("ID1", "ID1")
            ctx.check("C11.import", lf, a, (k, v) == want,
                      f"an import-list entry {'with' if as_taken else 'without'} `as` binds {k} -> {v} (expected "
                      f"{want[0]} -> {want[1]}: the symbol, then its alias or itself)",
                      expr=f"import entry {'as' if as_taken else 'plain'}",
                      site=f"import list: entry {'with alias' if as_taken else 'without alias'} stored as symbol -> {'alias' if as_taken else 'symbol'}")
    if pending and not any(f_.rule == "C11.import" for f_ in ctx.findings):
        ctx.broken(*pending[0])
    if n_paths < 2:
        ctx.broken(lf.qual, "import-list loop: fewer than two storing paths")

    # 2. the three require forms reach NodeRequire(modulespec, name, unqualified, symbols, pos) as parsed
    top = None
    for n in ast.walk(ps.node):
        if isinstance(n, ast.If) and norm(n.test) == "lexer.matchIf('require', 'keyword')":
            top = n
    if top is None:
        ctx.broken("parse_statement", "`require` branch not found")
    body, owner = top.body, ps
    if len(body) == 1 and isinstance(body[0], ast.Return) and isinstance(body[0].value, ast.Call):
        callee = resolve_static_call(model, ps, body[0].value)
        if callee is not None:
            body, owner = callee.node.body, callee
    g = CFG(_fragment(body), implicit_exc=False)
    dict_helpers = {lf.name} if lf is not ps and lf is not owner else set()
    seen_forms = set()
    for path in g.paths(max_paths=3000):
        env, form, ids = {}, "plain", 0
        ctor = None
        for node, label in path:
            a = node.ast
            if a is None:
                continue
            if node.kind == "test":
                from .common import _conj
                for x, pol in _conj(a, label == "true"):
                    if isinstance(x, ast.Call) and norm(x.func) == "lexer.matchIf" and x.args and pol:
                        t0 = norm(x.args[0])
                        if t0 == "'unqualified'":
                            form = "unqualified"
                        elif "'import'" in t0:
                            form = "import"
                        elif t0 == "'as'" and not any(x2 is loop for x2 in ast.walk(_fragment(body))) or \
                                (t0 == "'as'" and not any(y is x for y in ast.walk(loop))):
                            form = "as"
                continue
            if isinstance(a, ast.Assign) and len(a.targets) == 1 and isinstance(a.targets[0], ast.Name):
                v = a.value
                nm = a.targets[0].id
                if _is_match_ident(v):
                    ids += 1
                    env[nm] = "IDENT"
                elif isinstance(v, ast.Constant):
                    env[nm] = repr(v.value)
                elif isinstance(v, (ast.Dict,)) or norm(v) == "dict()":
                    env[nm] = "DICT"
                elif isinstance(v, ast.Call) and isinstance(v.func, ast.Name) and v.func.id in dict_helpers:
                    env[nm] = "DICT"
                elif isinstance(v, ast.Call) and norm(v.func) == "parse_expression":
                    env[nm] = "SPEC"
                elif isinstance(v, ast.Call) and norm(v.func) == "lexer.getPos":
                    env[nm] = "POS"
                else:
                    env[nm] = "unknown:" + norm(v)[:40]
            for x in ast.walk(a):
                if isinstance(x, ast.Call) and norm(x.func) == "NodeRequire":
                    ctor = x
        if ctor is None:
            continue
        vals = []
        for e in ctor.args:
            if isinstance(e, ast.Name):
                vals.append(env.get(e.id, "unknown:" + e.id))
            elif isinstance(e, ast.Constant):
                vals.append(repr(e.value))
            elif _is_match_ident(e):
                vals.append("IDENT")
            else:
                vals.append("unknown:" + norm(e)[:40])
        want = {"plain": ["SPEC", "None", "False", "None", "POS"],
                "unqualified": ["SPEC", "None", "True", "None", "POS"],
                "import": ["SPEC", "None", "False", "DICT", "POS"],
                "as": ["SPEC", "IDENT", "False", "None", "POS"]}[form]
        if any(v.startswith("unknown:") for v in vals):
            ctx.broken(owner.qual, f"NodeRequire argument not understood on the `{form}` form: {vals}")
        seen_forms.add(form)
        ctx.check("C11.import", owner, ctor, vals == want,
                  f"the `{form}` form of require builds NodeRequire{tuple(vals)}, expected {tuple(want)}",
                  expr=f"NodeRequire for {form}", site=f"require ({form}): NodeRequire{tuple(want)}")
    if seen_forms != {"plain", "unqualified", "import", "as"}:
        ctx.broken(owner.qual, f"require forms found: {sorted(seen_forms)}")
