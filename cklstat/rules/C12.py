"""C12 - Results do not depend on hash seeds, process or construction order.

Decided statically:
  C12.iter     no payload of a language set (host set: iteration order depends on the string hash seed) and no
               payload of a language map (host dict: iteration order is the construction order) is iterated raw
               into an order-sensitive result.  Every iteration site in the package (for loops, comprehensions,
               list()/tuple()/enumerate()/zip(), star-unpacking, iter()/next(), .pop()) is typed by the kinds
               engine; if the iterated object can be such a payload, the consumer must be order-insensitive:
               sorted(..), the sorted views, sum/len/any/all/min/max, set()/frozenset(), or a loop whose only
               effects are insertions into a set / map / dict (or early-exit membership answers)
  C12.sources  the only other nondeterminism sources reachable from evaluation are the documented clock and
               random built-ins; the pseudo-random step is a pure function of the seed
Not decided: equality of whole outputs across processes (needs runs).
"""
import ast

from ..callgraph import CallGraph
from ..core import norm
from ..kinds import Engine
from .common import known

P = "C12"
EXPLANATION = __doc__
TECHNIQUE = "kind inference of every iterated expression (provenance of host set/dict payloads) + consumer " \
            "classification; enumeration of nondeterminism sources"
LEVEL_TEXT = (
    "Static data-flow analysis over the whole package: every place where Python iterates something is typed, "
    "and wherever the iterated object can be the raw payload of a language set or map the consumer is shown to be "
    "order-insensitive. A leak of hash order is invisible to any single run by construction; this rule sees it in "
    "the code, for every program and every hash seed. Whole-program output equality across processes is not "
    "executed.")
LEVEL_NOTE = ("Trusted: the kinds engine (payload provenance through .value, .keys()/.values()/.items(), asSet()/"
              "asMap()); Python dicts preserve insertion order, sets do not.")
ASSUMPTIONS = ["object (not map) payloads are ordered by construction, which the language defines as their order"]
FLOORS = {"C12.iter": 60, "C12.sources": 6}

ORDER_FREE_CONSUMERS = {"sorted", "set", "frozenset", "sum", "min", "max", "any", "all", "len"}
INSERT_ONLY = {"addItem", "add", "update", "discard"}


def _raw_unordered(v):
    """Why the abstract value may be a raw set / map payload (or None)."""
    if not known(v):
        return None
    t = v.types
    if t & {"set", "frozenset"}:
        if any(f.startswith("payload:ValueSet") for f in v.flags) or "progpayload" in v.flags or not v.flags - {"fresh"}:
            return "host set"
        return "host set"
    if t & {"dict", "dictview"}:
        if "payload:ValueMap" in v.flags:
            return "map payload (host dict in construction order)"
    return None


def _loop_is_order_free(loop, engine, ip):
    """A for statement whose body only inserts into sets/maps/dicts, answers membership, or accumulates a sum."""
    recv_of = {id(ev.node): ev.data[0] for ev in ip.events if ev.kind == "method"}
    store_of = {id(ev.node): ev.data[0] for ev in ip.events if ev.kind == "store_subscript"}
    UNORDERED = {"ValueSet", "ValueMap", "set", "frozenset"}

    def ok_stmt(s):
        if isinstance(s, ast.Expr) and isinstance(s.value, ast.Call) and isinstance(s.value.func, ast.Attribute) \
                and s.value.func.attr in INSERT_ONLY:
            r = recv_of.get(id(s.value))
            # inserting into an unordered container is order-free; into an object / list it is not
            return r is not None and known(r) and r.types <= UNORDERED
        if isinstance(s, ast.Assign) and isinstance(s.targets[0], ast.Subscript):
            b = store_of.get(id(s.targets[0]))
            return b is not None and known(b) and b.types <= {"dict"} and "payload:ValueMap" in b.flags \
                and "payload:ValueObject" not in b.flags
        if isinstance(s, ast.If):
            return all(ok_stmt(x) for x in s.body) and all(ok_stmt(x) for x in s.orelse)
        if isinstance(s, ast.Return) and isinstance(s.value, (ast.Constant, ast.Name)) \
                and norm(s.value) in ("TRUE", "FALSE", "True", "False"):
            return True
        if isinstance(s, (ast.Continue, ast.Pass)):
            return True
        if isinstance(s, ast.AugAssign) and isinstance(s.op, ast.Add) and isinstance(s.target, ast.Name):
            return False
        return False
    return all(ok_stmt(s) for s in loop.body)


def run(ctx):
    model = ctx.model
    engine = Engine(model)
    parents = {}
    total = 0
    for f in model.all_funcs():
        if f.module.name in ("run", "repl"):
            continue
        has_iter = any(isinstance(n, (ast.For, ast.comprehension, ast.Starred)) or
                       (isinstance(n, ast.Call) and norm(n.func) in ("list", "tuple", "sorted", "set", "enumerate",
                                                                     "zip", "iter", "next", "sum", "min", "max"))
                       or (isinstance(n, ast.Call) and isinstance(n.func, ast.Attribute) and n.func.attr in ("pop", "popitem", "join"))
                       for n in ast.walk(f.node))
        if not has_iter:
            continue
        ip = engine.interp(f)
        par = {}
        for n in ast.walk(f.node):
            for ch in ast.iter_child_nodes(n):
                par[id(ch)] = n
        for ev in ip.events:
            if ev.kind == "iter":
                v, consumer = ev.data
                why = _raw_unordered(v)
                total += 1
                site = f"{f.qual}: {consumer}({norm(ev.node)[:60]})"
                if why is None:
                    ctx.ob("C12.iter", site + f" [{v!r}]"[:110], True)
                    continue
                ok = False
                if consumer in ORDER_FREE_CONSUMERS:
                    ok = True
                elif consumer == "for":
                    loop = par.get(id(ev.node))
                    if isinstance(loop, ast.For):
                        ok = _loop_is_order_free(loop, engine, ip)
                elif consumer == "comprehension":
                    comp = par.get(id(ev.node))
                    owner = par.get(id(comp)) if comp is not None else None
                    if isinstance(owner, (ast.SetComp, ast.DictComp)):
                        ok = True
                    elif isinstance(owner, ast.GeneratorExp):
                        call = par.get(id(owner))
                        ok = isinstance(call, ast.Call) and norm(call.func) in ORDER_FREE_CONSUMERS
                    elif isinstance(owner, ast.ListComp):
                        call = par.get(id(owner))
                        ok = isinstance(call, ast.Call) and norm(call.func) in ORDER_FREE_CONSUMERS
                ctx.ob("C12.iter", site + f" [{why}]", ok)
                if not ok:
                    ctx.fail("C12.iter", f, ev.node,
                             f"{consumer} iterates {why} `{norm(ev.node)[:60]}` into an order-sensitive result: the "
                             f"outcome depends on the hash seed / construction order; enumerate the sorted view "
                             f"instead", expr=f"{consumer} over {norm(ev.node)}")
            elif ev.kind == "method":
                recv, name, args = ev.data
                if name in ("pop", "popitem") and known(recv) and recv.types & {"set"} and not args:
                    total += 1
                    ctx.check("C12.iter", f, ev.node, False, "set.pop() removes an arbitrary (hash-order) element")
                if name == "join" and args and _raw_unordered(args[0]):
                    total += 1
                    ctx.check("C12.iter", f, ev.node, False,
                              f"str.join over {_raw_unordered(args[0])}: text depends on hash/construction order")
    if total < 60:
        ctx.broken("C12.iter", f"only {total} iteration sites typed")

    # the same through one call: a raw set / map payload handed to a helper that iterates that parameter in order
    from .common import resolve_static_call
    order_params = {}
    for g in model.all_funcs():
        if g.module.name in ("run", "repl"):
            continue
        params = [a.arg for a in g.node.args.posonlyargs + g.node.args.args]
        if g.cls is not None and params[:1] in (["self"], ["cls"]):
            params = params[1:]
        if not params:
            continue
        par = {}
        for n in ast.walk(g.node):
            for ch in ast.iter_child_nodes(n):
                par[id(ch)] = n
        reassigned = {n.id for n in ast.walk(g.node) if isinstance(n, ast.Name) and isinstance(n.ctx, ast.Store)}
        hits = set()
        for n in ast.walk(g.node):
            it = None
            if isinstance(n, ast.For):
                it, order_free = n.iter, None
            elif isinstance(n, ast.comprehension):
                it = n.iter
            if it is None:
                continue
            base = it
            if isinstance(base, ast.Call) and isinstance(base.func, ast.Attribute) and base.func.attr in ("items", "keys", "values") \
                    and not base.args:
                base = base.func.value
            if not (isinstance(base, ast.Name) and base.id in params and base.id not in reassigned):
                continue
            if isinstance(n, ast.comprehension):
                owner = par.get(id(n))
                if isinstance(owner, (ast.SetComp, ast.DictComp)):
                    continue
                call = par.get(id(owner))
                if isinstance(call, ast.Call) and norm(call.func) in ORDER_FREE_CONSUMERS:
                    continue
            else:
                ip_g = engine.interp(g)
                if _loop_is_order_free(n, engine, ip_g):
                    continue
            hits.add(params.index(base.id))
        if hits:
            order_params[g] = hits
    n_calls = 0
    for f in model.all_funcs():
        if f.module.name in ("run", "repl"):
            continue
        cands = [c for c in ast.walk(f.node) if isinstance(c, ast.Call) and resolve_static_call(model, f, c) in order_params]
        if not cands:
            continue
        ip = engine.interp(f)
        for ev in ip.events:
            if ev.kind != "call" or not isinstance(ev.node, ast.Call):
                continue
            callee = resolve_static_call(model, f, ev.node)
            if callee not in order_params:
                continue
            fn, args, kwargs = ev.data
            for idx in sorted(order_params[callee]):
                if idx >= len(args):
                    continue
                n_calls += 1
                why = _raw_unordered(args[idx])
                ctx.check("C12.iter", f, ev.node, why is None,
                          f"{why} `{norm(ev.node.args[idx])[:50]}` is handed to {callee.qual}, which iterates that "
                          f"parameter into an order-sensitive result: the outcome depends on the hash seed / "
                          f"construction order", expr=f"{callee.qual}({norm(ev.node.args[idx])[:50]})",
                          site=f"{f.qual}: {callee.qual}({norm(ev.node.args[idx])[:40]}) [{args[idx]!r}]"[:130])
    ctx.note(f"C12.iter: {len(order_params)} helpers iterate a parameter in order; {n_calls} typed call sites")

    # ---------------------------------------------------------------- sources
    cg = CallGraph(model)
    allowed = {("FuncDate.execute", "datetime.datetime.now"), ("FuncTimestamp.execute", "datetime.datetime.now"),
               ("ValueDate.__init__", "datetime.datetime.now"), ("<module>", "random.random")}
    ND = ("random.", "time.", "uuid.", "secrets.", "os.urandom", "os.getpid", "datetime.datetime.now",
          "datetime.datetime.today", "datetime.datetime.utcnow", "datetime.date.today")
    for f in model.all_funcs(True):
        if f.module.name in ("run", "repl"):
            continue
        for r in cg.refs(f):
            if r.kind != "host":
                continue
            t = r.target
            if t.startswith(ND) or t == "id" or (t == "hash" and f.name != "__hash__"):
                ok = (f.qual, t) in allowed
                ctx.check("C12.sources", f, r.node, ok,
                          f"nondeterminism source {t} used outside the documented clock/random built-ins",
                          site=f"{f.qual}: {t}")
    sr = model.method(P, "FuncRandom", "seededRandom")
    body = [norm(s) for s in sr.node.body if not isinstance(s, ast.Global)]
    ok = body == ["seed = (seed * 9301 + 49297) % 233280", "return seed / 233280"] or \
        (len(body) == 2 and body[0].startswith("seed = ") and "random" not in body[0] and "time" not in body[0])
    ctx.check("C12.sources", sr, None, ok, "the pseudo-random step is not a pure function of the seed",
              expr="seed step", site="FuncRandom.seededRandom: seed := f(seed)")
    ss = model.method(P, "FuncSetSeed", "execute")
    ok = "seed = args.getInt('n').value" in norm(ss.node)
    ctx.check("C12.sources", ss, None, ok, "set_seed does not set the seed from its argument", expr="set_seed",
              site="FuncSetSeed.execute: seed := n")
