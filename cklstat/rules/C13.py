"""C13 - Only language-level errors escape evaluation.

For every evaluator (Node*.evaluate), built-in (Func*.execute and helpers) and the value / argument helpers they
reach, the absence of the ENUMERATED classes of host exception below is decided with positive evidence (a report
is made only when the analysis knows the offending fact).  This is a catalogue of unchecked assumptions, not a
proof that no host exception exists.

  C13.attr     AttributeError: an attribute / method is used on a receiver whose class set is known and one of
               the classes (repo class or host type) lacks it; C13.none: the receiver may be None
  C13.unbound  UnboundLocalError: a local is read on a path with no prior assignment (definite assignment)
  C13.kind     TypeError / ValueError: the payload of a program-controlled value of unrefined kind reaches a host
               operation that needs a specific type (int(), float(), str +, str.find, index, iteration, hashing)
  C13.concat   TypeError: str + non-str
  C13.table    IndexError: the date helpers index their month table inside its bounds at every call site (interval
               analysis); their ValueError (result outside years 1..9999, nan / inf) is converted at every call
  C13.key      KeyError / ValueError: list.remove(x), set.remove(x), del dict[k], dict.pop(k) are dominated by a
               membership test on the same container or convert the error; for wrapper methods every caller is
               looked at instead
  C13.ckl.step library code: a loop `while length(V) > P` that cuts P elements off V per round rejects P <= 0 first
               (non-termination on finite data)
  C13.conv     ValueError / OverflowError: int()/float()/chr()/shift count on program-derived input outside a
               handler that converts the host error; C13.math: math domain / overflow errors
  C13.zero     ZeroDivisionError: / // % whose divisor is neither a non-zero constant nor dominated by a zero test
  C13.index    IndexError / KeyError: constant index into a sequence whose length no dominating test bounds
  C13.arity    TypeError: a call resolved to repository functions passes a number of positional arguments none of
               the targets accept
  C13.ckl.rec  library code: a function that calls itself on the text after a match of X rejects an empty X first
  C13.ckl.fill library loops that fill a set up to a requested size are guarded by a distinct-count test
               (the one termination condition of library code that is decided)
Not decided: MemoryError / RecursionError, float overflow to inf, termination of library code written in the
language beyond the three patterns above.
"""
import ast

from ..callgraph import CallGraph
from ..cfg import CFG
from ..core import norm
from ..facts import must_facts
from ..kinds import Engine
from .common import HOST_PY, known

P = "C13"
EXPLANATION = __doc__
TECHNIQUE = "kind inference with provenance (program-controlled payloads) reaching typed host sinks, definite-" \
            "assignment and guard-dominance dataflow, arity check over the resolved call graph"
LEVEL_TEXT = (
    "Static catalogue over all evaluators, built-ins and value helpers: each enumerated class of host exception "
    "(attribute, unbound local, type/value errors from unrefined program values, conversions, division by zero, "
    "unguarded constant indices, arity) is searched for with positive evidence only, over every code path and "
    "hence every argument tuple. It is not a proof that no other host exception can occur, and termination of "
    "library code is not decided.")
LEVEL_NOTE = "Trusted: the kinds engine (E4) typing tables for host operations; TOP never produces a report."
ASSUMPTIONS = ["MemoryError, RecursionError and float overflow to inf are out of scope"]
FLOORS = {"C13.attr": 900, "C13.unbound": 300, "C13.zero": 5, "C13.index": 10, "C13.arity": 300,
          "C13.conv": 8, "C13.kind": 100}

SCOPE_MODULES = ("nodes", "functions", "values", "interpreter", "date", "errors")
NUMERIC_ONLY = {"int", "float", "bool"}


def scope_funcs(model):
    out = []
    for mname in SCOPE_MODULES:
        m = model.modules.get(mname)
        if m is None:
            continue
        out.extend(m.all_funcs())
    return out


def run(ctx):
    global _MODEL
    _MODEL = ctx.model
    model = ctx.model
    engine = Engine(model)
    funcs = scope_funcs(model)
    if len(funcs) < 600:
        ctx.broken("C13 scope", f"only {len(funcs)} functions in scope")
    n_attr = 0
    for f in sorted(funcs, key=lambda f: (f.file, f.qual)):
        ip = engine.interp(f)
        n_attr += events_rules(ctx, engine, f, ip)
        unbound(ctx, f)
        zero_and_index(ctx, engine, f, ip)
        index_other_sequence(ctx, f)
    if n_attr < 900:
        ctx.broken("C13.attr", f"only {n_attr} typed attribute uses")
    arity(ctx, model, funcs)
    ckl_set_fill(ctx, model)
    ckl_shrink_loops(ctx, model)
    ckl_recursion_step(ctx, model)
    host_data(ctx, model)
    absent_key(ctx, model, engine, funcs)
    date_helpers(ctx, model, funcs)
    for c in model.subclasses("Value"):
        for m in c.methods.values():
            if m.name.startswith("as") and m.name[2:3].isupper():
                sm = engine.summary(m)
                bad = sm is not None and sm.types is not None and "None" in sm.types
                ctx.ob("C13.none", f"{m.qual}: always returns a value or raises", not bad)
                if bad:
                    ctx.fail("C13.none", m, None,
                             f"{m.qual} can fall off the end / return None: callers use the result as a value",
                             expr=f"{m.qual} may return None")


# --------------------------------------------------------------------------------------------------
_MODEL = None


def _in_try_converting(f, node, exc_names):
    """Is `node` inside a try whose handler for one of exc_names (or Exception) raises CklRuntimeError?"""
    found = False

    def rec(n, stack):
        nonlocal found
        for ch in ast.iter_child_nodes(n):
            if ch is node:
                for t in stack:
                    for h in t.handlers:
                        names = ["*"] if h.type is None else [norm(x) for x in (h.type.elts if isinstance(h.type, ast.Tuple) else [h.type])]
                        if "*" in names or "Exception" in names or any(e in names for e in exc_names):
                            last = h.body[-1] if h.body else None
                            if isinstance(last, ast.Raise) and last.exc is not None:
                                if "CklRuntimeError" in norm(last.exc):
                                    found = True
                                elif _MODEL is not None:
                                    from .common import raised_ctors
                                    cs = raised_ctors(_MODEL, f, last.exc)
                                    if cs and all(norm(c.func) == "CklRuntimeError" for c in cs):
                                        found = True
                            if isinstance(last, ast.Return):
                                found = True
                            if isinstance(last, (ast.Assign, ast.Pass, ast.Continue, ast.Break)):
                                found = True
                return True
            st = stack + [n] if isinstance(n, ast.Try) and ch in n.body else stack
            if rec(ch, st):
                return True
        return False

    rec(f.node, [])
    return found


def events_rules(ctx, engine, f, ip):
    cfg = engine.cfg
    n_attr = 0
    for ev in ip.events:
        if ev.kind == "attr":
            base, attr = ev.data
            if base.types is not None and "ctorfield" in base.flags and "?" in base.types and (base.types - {"?"}):
                # a lower bound: these classes ARE stored in the field (constructed at call sites of the package);
                # whatever else may be stored does not make them go away
                from ..kinds import AV
                base = AV(set(base.types) - {"?"}, flags=set(base.flags) | {"prog"})
            if not known(base):
                continue
            n_attr += 1
            # a broad set without provenance (e.g. "some Value" after isinstance) is not evidence that every
            # member reaches this point
            if len(base.types) > 4 and not (base.flags & {"prog"}):
                ctx.ob("C13.attr", f"{f.qual}: {norm(ev.node)[:80]} [broad receiver, not judged]", True)
                continue
            missing = []
            strict = "prog" in base.flags
            for t in sorted(base.types):
                if t in engine.model.classes or t == "ValueFunc":
                    has = engine.class_has_attr(t, attr, strict)
                    if t == "ValueFunc" and not has:
                        has = all(engine.class_has_attr(c, attr, strict) for c in cfg.func_classes)
                    if has is False:
                        missing.append(t)
                elif t in HOST_PY and not hasattr(HOST_PY[t], attr):
                    missing.append(t)
            ok = not missing
            rule = "C13.none" if missing == ["None"] else "C13.attr"
            ctx.ob("C13.attr", f"{f.qual}: {norm(ev.node)[:80]}", ok, "" if ok else f"missing on {missing}")
            if not ok:
                ctx.fail(rule, f, ev.node,
                         f"`.{attr}` is used on a value that can be {sorted(base.types)[:8]}; {missing} has no such "
                         f"attribute: AttributeError at run time" if rule == "C13.attr" else
                         f"`.{attr}` is used on a value that may be None (a callee can return nothing)")
        elif ev.kind == "call":
            fn, args, kwargs = ev.data
            name = norm(fn)
            if name in ("int", "float", "chr", "ord") and args:
                a = args[0]
                if not known(a):
                    continue
                prog = "progpayload" in a.flags or "prog" in a.flags
                guarded = _in_try_converting(f, ev.node, ("ValueError", "TypeError", "OverflowError"))
                if name in ("int", "float"):
                    wrong = a.types - {"int", "float", "bool", "str"}
                    if wrong and prog:
                        ctx.check("C13.kind", f, ev.node, guarded,
                                  f"{name}() receives the payload of a program value of unrefined kind "
                                  f"(possible host types {sorted(a.types)[:6]}): TypeError/ValueError for "
                                  f"{sorted(wrong)[:4]}")
                    elif "str" in a.types:
                        ctx.check("C13.conv", f, ev.node, guarded,
                                  f"{name}() of a string that need not be a numeral: ValueError is not converted "
                                  f"into a runtime error")
                    else:
                        ctx.ob("C13.conv", f"{f.qual}: {norm(ev.node)[:60]} [total on {sorted(a.types)}]", True)
                elif name == "chr":
                    ctx.check("C13.conv", f, ev.node, guarded, "chr() of an unchecked int: ValueError/OverflowError "
                              "outside the code point range")
                elif name == "ord":
                    ctx.check("C13.conv", f, ev.node, guarded or _len_guard(f, ev.node),
                              "ord() of a string that may be empty or longer than one character")
            if name == "re.compile" and args and not isinstance(ev.node.args[0], ast.Constant):
                guarded = _in_try_converting(f, ev.node, ("re.error",))
                ctx.check("C13.conv", f, ev.node, guarded,
                          "re.compile() of a program-supplied text outside a handler converting re.error")
            if name.startswith("math.") and name not in ("math.pi", "math.e") and args:
                fnm = name.split(".")[1]
                if fnm in ("acos", "asin", "log", "sqrt", "exp", "pow", "log10", "log2"):
                    guarded = _in_try_converting(f, ev.node, ("ValueError", "OverflowError"))
                    ctx.check("C13.math", f, ev.node, guarded,
                              f"{name}() raises ValueError (domain) / OverflowError for some numeric arguments and "
                              f"is not inside a converting handler")
        elif ev.kind == "binop":
            l, r, op = ev.data
            if op == "Add":
                for a, b, side in ((l, r, "right"), (r, l, "left")):
                    if known(a) and a.types <= {"str"} and known(b) and "str" not in b.types:
                        ctx.check("C13.concat", f, ev.node, False,
                                  f"str + {sorted(b.types)[:4]}: the {side} operand is never a host string: TypeError")
                        break
                    if known(a) and a.types <= {"str"} and known(b) and ("progpayload" in b.flags) and (b.types - {"str"}):
                        ctx.check("C13.kind", f, ev.node, False,
                                  f"string concatenation with the payload of a program value of unrefined kind "
                                  f"({sorted(b.types)[:6]}): TypeError for non-strings")
                        break
            if op in ("LShift", "RShift") and not isinstance(ev.node.right, ast.Constant) \
                    and (not known(r) or r.types <= {"int", "bool"}):
                guarded = _in_try_converting(f, ev.node, ("ValueError",)) or _shift_nonneg(f, ev.node)
                ctx.check("C13.conv", f, ev.node, guarded,
                          f"shift by `{norm(ev.node.right)}`, which is not proven non-negative: ValueError "
                          f"(negative shift count)")
        elif ev.kind == "method":
            recv, mname, args = ev.data
            if known(recv) and recv.types <= {"str"} and mname in ("find", "rfind", "startswith", "endswith", "count",
                                                                  "index", "split", "replace", "join") and args:
                a = args[0]
                if known(a) and "progpayload" in a.flags and (a.types - {"str"}) and mname != "join":
                    ctx.check("C13.kind", f, ev.node, False,
                              f"str.{mname}() receives the payload of a program value of unrefined kind "
                              f"({sorted(a.types)[:6]}): TypeError for non-strings")
                else:
                    ctx.ob("C13.kind", f"{f.qual}: {norm(ev.node)[:70]}", True)
        elif ev.kind == "subscript" and known(ev.data[0]) and ev.data[0].types <= {"str", "list"} \
                and known(ev.data[1]) and ev.data[1].types <= {"tuple"}:
            ctx.check("C13.kind", f, ev.node, False,
                      f"`{norm(ev.node)}`: a sequence is indexed with a tuple (comma instead of colon?): TypeError")
        elif ev.kind == "subscript" and known(ev.data[0]) and ev.data[0].types <= {"dict"} \
                and isinstance(ev.node.slice, ast.Call) and norm(ev.node.slice.func).startswith("Value"):
            g = CFG(f.node, implicit_exc=False)
            facts = must_facts(g)
            guarded = False
            for n in g.nodes:
                if n.ast is not None and n.kind != "for" and any(x is ev.node for x in ast.walk(n.ast)):
                    guarded = any(p and (" in " in t or "hasItem(" in t) for t, p in facts.get(n.id, frozenset()))
            ctx.check("C13.index", f, ev.node, guarded,
                      f"`{norm(ev.node)}`: map payload looked up with a freshly built key and no membership test: "
                      f"KeyError when the key is absent")
        elif ev.kind == "subscript":
            b, i = ev.data
            if known(b) and b.types & {"list", "str", "tuple"} and known(i) and "progpayload" in i.flags \
                    and (i.types - {"int", "bool"}):
                ctx.check("C13.kind", f, ev.node, False,
                          f"sequence indexed with the payload of a program value of unrefined kind "
                          f"({sorted(i.types)[:6]}): TypeError")
            elif known(b):
                ctx.ob("C13.kind", f"{f.qual}: {norm(ev.node)[:70]}", True)
        elif ev.kind == "iter" and known(ev.data[0]) and ev.data[0].types <= {"method", "callable"}:
            ctx.check("C13.attr", f, ev.node, False,
                      f"{ev.data[1]} iterates a bound method (`{norm(ev.node)}` is not called): TypeError")
        elif ev.kind == "iter":
            v, consumer = ev.data
            if known(v) and ("progpayload" in v.flags) and (v.types & {"int", "float", "bool", "None", "datetime", "node"}):
                ctx.check("C13.kind", f, ev.node, False,
                          f"{consumer} iterates the payload of a program value of unrefined kind: not iterable for "
                          f"{sorted(v.types & {'int', 'float', 'bool', 'None', 'datetime', 'node'})}")
            elif known(v) and "None" in v.types and len(v.types) > 1:
                ctx.check("C13.none", f, ev.node, False, f"{consumer} iterates a value that may be None")
            elif known(v):
                ctx.ob("C13.kind", f"{f.qual}: {consumer} {norm(ev.node)[:60]}", True)
    return n_attr


def _len_guard(f, node):
    g = CFG(f.node, implicit_exc=False)
    facts = must_facts(g)
    for n in g.nodes:
        if n.ast is not None and n.kind != "for" and any(x is node for x in ast.walk(n.ast)):
            have = facts.get(n.id, frozenset())
            return any((("== ''" in t or '== ""' in t or t.endswith(") == 0")) and not p)
                       or ("len(" in t and p and not t.endswith(") == 0")) for t, p in have)
    return False


def _shift_nonneg(f, node):
    """Interval analysis: the shift count's lower bound is >= 0 at the shift."""
    from ..intervals import Bounds, le
    b = Bounds(f.node)
    for n in b.g.nodes:
        if n.ast is not None and n.kind != "for" and any(x is node for x in ast.walk(n.ast)):
            lo, hi = b.ev(node.right, b.at(n))
            return lo is not None and le(("c", 0), lo) is True
    return False


def _nonneg_guard(f, node):
    g = CFG(f.node, implicit_exc=False)
    facts = must_facts(g)
    right = norm(node.right)
    # the count was reduced modulo a positive constant after the last other assignment
    defs = [n for n in ast.walk(f.node) if isinstance(n, ast.Assign) and norm(n.targets[0]) == right]
    if defs and isinstance(defs[-1].value, ast.BinOp) and isinstance(defs[-1].value.op, ast.Mod) \
            and isinstance(defs[-1].value.right, ast.Constant) and isinstance(defs[-1].value.right.value, int) \
            and defs[-1].value.right.value > 0 and defs[-1].lineno < node.lineno:
        return True
    for n in g.nodes:
        if n.ast is not None and n.kind != "for" and any(x is node for x in ast.walk(n.ast)):
            have = facts.get(n.id, frozenset())
            return (f"{right} < 0", False) in have or (f"{right} >= 0", True) in have
    return False


# --------------------------------------------------------------------------------------------------
def ckl_shrink_loops(ctx, model):
    """Library code: a loop `while length(V) > P` that cuts P elements off V per round (sublist / substr from P)
    makes progress only if P >= 1; for a parameter P that must be established by a guard that raises otherwise."""
    from .. import cklsrc
    n = 0
    for fn, (src, _) in sorted(model.ckl_modules.items()):
        try:
            toks = cklsrc.tokenize(src)
            funcs = cklsrc.functions(toks)
        except cklsrc.CklTokenError as e:
            ctx.broken(f"modules/{fn}", str(e))
        for f in funcs:
            body = cklsrc.own_body(f)
            seen = set()
            for i in range(len(body) - 6):
                if not (body[i].is_id("while") and body[i + 1].is_id("length") and body[i + 2].is_p("(")
                        and body[i + 3].kind == "id" and body[i + 4].is_p(")") and body[i + 5].is_p(">")
                        and body[i + 6].kind == "id" and body[i + 6].text in f.params):
                    continue
                v, p = body[i + 3].text, body[i + 6].text
                # the loop body re-binds V to a tail of V that starts at P
                j = i + 7
                end = cklsrc._skip_block(body, j) if hasattr(cklsrc, "_skip_block") else len(body)
                loop = body[j:end]
                shrinks = any(loop[k].kind == "id" and loop[k].text == v and loop[k + 1].is_p("=")
                              and any(t.is_id("sublist") or t.is_id("substr") for t in loop[k + 2:k + 8])
                              and any(t.kind == "id" and t.text == p for t in loop[k + 2:k + 10])
                              for k in range(len(loop) - 3))
                if not shrinks:
                    continue
                n += 1
                pre = body[:i]
                ok = (p in seen)
                for k in range(len(pre) - 3):
                    if pre[k].kind == "id" and pre[k].text == p and (
                            (pre[k + 1].is_p("<=") and pre[k + 2].text == "0") or
                            (pre[k + 1].is_p("<") and pre[k + 2].text == "1")) \
                            and any(t.is_id("error") for t in pre[k + 3:k + 9]):
                        ok = True
                if ok:
                    seen.add(p)
                ctx.ob("C13.ckl.step", f"modules/{fn}: {f.qual}: while length({v}) > {p}", ok)
                if not ok:
                    ctx.fail("C13.ckl.step", f"modules/{fn}:{f.qual}", None,
                             f"{f.qual} cuts `{p}` elements off `{v}` per round of `while length({v}) > {p}` but no "
                             f"guard rejects {p} <= 0: the loop never terminates for a zero or negative step",
                             expr=f"{f.qual}: while length({v}) > {p}", file=f"src/ckl/modules/{fn}", line=body[i].line)
    if n < 1:
        ctx.broken("C13.ckl.step", "no shrinking loop found in the library (chunks)")


def ckl_recursion_step(ctx, model):
    """Library code: a function that calls itself on `substr(s, pos + length(X))` (the rest of the text after a match
    of X) makes progress only if X is not empty; for a parameter X an `X == ''` (or length(X) == 0 / is_empty(X))
    test that leaves the function must come first.  Otherwise the recursion ends in the host's RecursionError."""
    from .. import cklsrc
    n = 0
    for fn, (src, _) in sorted(model.ckl_modules.items()):
        try:
            toks = cklsrc.tokenize(src)
            funcs = cklsrc.functions(toks)
        except cklsrc.CklTokenError as e:
            ctx.broken(f"modules/{fn}", str(e))
        for f in funcs:
            body = cklsrc.own_body(f)
            calls = [i for i in range(len(body) - 1) if body[i].is_id(f.name) and body[i + 1].is_p("(")
                     and (i == 0 or not body[i - 1].is_p("->"))]
            for i in calls[:1]:
                # the text handed to the recursive call is cut with substr(.., pos + length(X)) somewhere in the body
                # (inline in the call or through a local)
                needs = set()
                for k in range(len(body) - 5):
                    if body[k].is_id("substr") and body[k + 1].is_p("("):
                        e2 = cklsrc._skip_group(body, k + 1)
                        inner = body[k + 2:e2]
                        for q in range(len(inner) - 3):
                            if inner[q].is_p("+") and inner[q + 1].is_id("length") and inner[q + 2].is_p("(") \
                                    and inner[q + 3].kind == "id" and inner[q + 3].text in f.params:
                                needs.add(inner[q + 3].text)
                if not needs:
                    continue
                pre = body[:i]
                for x in sorted(needs):
                    n += 1
                    ok = False
                    for k in range(len(pre) - 3):
                        empty_test = (pre[k].kind == "id" and pre[k].text == x and pre[k + 1].is_p("==")
                                      and pre[k + 2].kind == "str" and pre[k + 2].text == "") or \
                                     (pre[k].is_id("is_empty") and pre[k + 1].is_p("(") and pre[k + 2].kind == "id"
                                      and pre[k + 2].text == x) or \
                                     (pre[k].is_id("length") and pre[k + 1].is_p("(") and pre[k + 2].kind == "id"
                                      and pre[k + 2].text == x and k + 5 < len(pre) and pre[k + 4].is_p("==")
                                      and pre[k + 5].text == "0")
                        if empty_test and any(t.is_id("return") or t.is_id("error") for t in pre[k + 3:k + 10]):
                            ok = True
                    ctx.ob("C13.ckl.rec", f"modules/{fn}: {f.qual}: recursion on substr(.., pos + length({x}))", ok)
                    if not ok:
                        ctx.fail("C13.ckl.rec", f"modules/{fn}:{f.qual}", None,
                                 f"{f.qual} calls itself on the text after a match of `{x}` (substr(.., pos + length({x}))) "
                                 f"without rejecting an empty `{x}` first: the text never gets shorter and the recursion "
                                 f"ends in the host's RecursionError", expr=f"{f.qual}: recursion step length({x})",
                                 file=f"src/ckl/modules/{fn}", line=body[i].line)
    if n < 1:
        ctx.broken("C13.ckl.rec", "no self-recursive text function found in the library (replace)")


def date_helpers(ctx, model, funcs):
    """The date arithmetic helpers (date.py) are position-less host code: (a) a module-level table indexed by a variable
    (`DAYS_PER_MONTH[month]`) is indexed inside its bounds at every call site (interval analysis, with
    1 <= datetime.month <= 12 as the only fact about host dates); (b) helpers that can raise ValueError (explicitly, or
    through datetime.replace with computed fields) are called only under a handler that turns it into a language
    error."""
    from ..intervals import Bounds, le, show
    from .common import resolve_static_call
    dm = model.modules.get("date")
    if dm is None:
        ctx.ob("C13.table", "no date module", True)
        return
    tables = {}
    for name, v in dm.globals_assigned.items():
        if isinstance(v, (ast.List, ast.Tuple)) and v.elts and all(isinstance(x, ast.Constant) for x in v.elts):
            tables[name] = len(v.elts)
    assume = {"date.month": (("c", 1), ("c", 12))}
    n = 0
    # (a) direct and through-parameter indexing
    indexed_param = {}       # helper -> (param index, table)
    for f in dm.funcs.values():
        for sub in ast.walk(f.node):
            if isinstance(sub, ast.Subscript) and isinstance(sub.value, ast.Name) and sub.value.id in tables \
                    and isinstance(sub.slice, ast.Name):
                if sub.slice.id in f.params and not any(
                        isinstance(x, ast.Name) and x.id == sub.slice.id and isinstance(x.ctx, ast.Store)
                        for x in ast.walk(f.node)):
                    indexed_param[f.name] = (f.params.index(sub.slice.id), sub.value.id)
                else:
                    b = Bounds(f.node, assume=assume, tracked={"date.month"})
                    for node in b.g.nodes:
                        a = node.ast if node.kind != "for" else None
                        if a is not None and any(x is sub for x in ast.walk(a)):
                            lo, hi = b.ev(sub.slice, b.at(node))
                            ok = lo is not None and le(("c", 0), lo) is True and hi is not None and \
                                le(hi, ("c", tables[sub.value.id] - 1)) is True
                            n += 1
                            ctx.check("C13.table", f, sub, ok,
                                      f"`{norm(sub)}`: the index is not proven inside the {tables[sub.value.id]}-entry "
                                      f"table (derived range [{show(lo)}, {show(hi)}]): IndexError")
    for f in list(dm.funcs.values()):
        calls = [c for c in ast.walk(f.node) if isinstance(c, ast.Call) and isinstance(c.func, ast.Name)
                 and c.func.id in indexed_param]
        if not calls:
            continue
        b = Bounds(f.node, assume=assume, tracked={"date.month"})
        from ..facts import short_circuit_facts
        for c in calls:
            pi, tbl = indexed_param[c.func.id]
            if pi >= len(c.args):
                continue
            for node in b.g.nodes:
                a = node.ast if node.kind != "for" else None
                if a is None or not any(x is c for x in ast.walk(a)):
                    continue
                st = b.at(node)
                # operands evaluated before the call in the same condition have already held
                for bo in ast.walk(a):
                    if isinstance(bo, ast.BoolOp) and isinstance(bo.op, ast.And):
                        for j, v in enumerate(bo.values):
                            if any(x is c for x in ast.walk(v)):
                                for prev in bo.values[:j]:
                                    st = b.refine(prev, True, st)
                lo, hi = b.ev(c.args[pi], st)
                ok = lo is not None and le(("c", 0), lo) is True and hi is not None and \
                    le(hi, ("c", tables[tbl] - 1)) is True
                n += 1
                ctx.check("C13.table", f, c, ok,
                          f"`{norm(c)}` indexes {tbl} with `{norm(c.args[pi])}`, not proven inside its "
                          f"{tables[tbl]} entries (derived range [{show(lo)}, {show(hi)}]): IndexError when the "
                          f"running month / index walks off the table",
                          site=f"{f.qual}: {norm(c)} index inside {tbl}")
    # (b) ValueError-raising date helpers are converted at every call site
    raising = set()
    for f in dm.funcs.values():
        if any(isinstance(r, ast.Raise) and r.exc is not None and "ValueError" in norm(r.exc) for r in ast.walk(f.node)) \
                or any(isinstance(c, ast.Call) and isinstance(c.func, ast.Attribute) and c.func.attr == "replace"
                       and any(k.arg in ("year", "month", "day") for k in c.keywords) for c in ast.walk(f.node)):
            raising.add(f.name)
    for g in funcs:
        for c in ast.walk(g.node):
            if isinstance(c, ast.Call) and isinstance(c.func, ast.Name) and c.func.id in raising \
                    and g.module.imports.get(c.func.id, "").startswith("ckl.date"):
                n += 1
                ok = _in_try_converting(g, c, ("ValueError", "Exception"))
                ctx.check("C13.conv", g, c, ok,
                          f"`{norm(c)[:60]}`: {c.func.id} raises ValueError for results outside the years 1..9999 "
                          f"(and for nan / inf); the call is not under a handler that turns it into a language error",
                          site=f"{g.qual}: {c.func.id}(..) under a converting handler")
    if n < 4:
        ctx.broken("date.py", f"only {n} table-index / conversion sites found")


def absent_key(ctx, model, engine, funcs):
    """KeyError / ValueError: list.remove(x), set.remove(x), del dict[k] and dict.pop(k) fail when the element is
    absent.  Each such site is dominated by a membership test on the same container, or converts the host error;
    when the element is a parameter of a small wrapper method, every caller of the wrapper must do so instead."""
    from ..facts import must_facts
    sites = []
    for f in funcs:
        if not any(isinstance(n, ast.Delete) or (isinstance(n, ast.Call) and isinstance(n.func, ast.Attribute)
                                                 and n.func.attr in ("remove", "pop")) for n in ast.walk(f.node)):
            continue
        ip = engine.interp(f)
        for ev in ip.events:
            if ev.kind == "method":
                recv, name, args = ev.data
                if not known(recv):
                    continue
                if name == "remove" and recv.types <= {"list", "set"} and len(args) == 1:
                    sites.append((f, ev.node, ev.node.func.value, ev.node.args[0],
                                  f"{'/'.join(sorted(recv.types))}.remove(x) of an absent element"))
                elif name == "pop" and recv.types <= {"dict"} and len(args) == 1:
                    sites.append((f, ev.node, ev.node.func.value, ev.node.args[0], "dict.pop(k) of an absent key"))
            elif ev.kind == "del_subscript":
                (b,) = ev.data
                if known(b) and b.types <= {"dict"} and isinstance(ev.node, ast.Subscript):
                    sites.append((f, ev.node, ev.node.value, ev.node.slice, "del dict[k] of an absent key"))
    ctx.ob("C13.key", f"{len(sites)} removal site(s) that fail on an absent element (list/set .remove, del dict[k], "
           f"dict.pop(k)) typed in the package", True)

    def guarded(f, node, cont, key):
        g = CFG(f.node, implicit_exc=False)
        facts = must_facts(g)
        c, k = norm(cont), norm(key)
        for n in g.nodes:
            a = n.ast if n.kind != "for" else None
            if a is not None and any(x is node for x in ast.walk(a)):
                have = facts.get(n.id, frozenset())
                if (f"{k} in {c}", True) in have or (f"{k} not in {c}", False) in have:
                    return True
        return _in_try_converting(f, node, ("KeyError", "ValueError", "Exception"))

    for f, node, cont, key, what in sites:
        if guarded(f, node, cont, key):
            ctx.ob("C13.key", f"{f.qual}: {norm(node)[:60]} [guarded]", True)
            continue
        # a wrapper `def removeItem(self, item): self.value.remove(item)`: look at its callers
        params = f.params[1:] if f.cls is not None else f.params
        culprit = None
        if isinstance(key, ast.Name) and key.id in params and f.cls is not None:
            callers = []
            for g_ in funcs:
                for c in ast.walk(g_.node):
                    if isinstance(c, ast.Call) and isinstance(c.func, ast.Attribute) and c.func.attr == f.name \
                            and g_ is not f:
                        callers.append((g_, c))
            for g_, c in callers:
                if not _in_try_converting(g_, c, ("KeyError", "ValueError", "Exception")) and not _caller_tests_membership(g_, c):
                    culprit = (g_, c)
                    break
            if callers and culprit is None:
                ctx.ob("C13.key", f"{f.qual}: {norm(node)[:60]} [every caller guards]", True)
                continue
        extra = f" (reached unguarded from {culprit[0].qual}: `{norm(culprit[1])[:50]}`)" if culprit else ""
        ctx.check("C13.key", f, node, False,
                  f"`{norm(node)[:60]}`: {what} raises KeyError / ValueError; no membership test on "
                  f"`{norm(cont)}` dominates it and no handler converts the error{extra}",
                  site=f"{f.qual}: {norm(node)[:60]}")


def _caller_tests_membership(g_, call):
    """the call is dominated by a hasItem / `in` test that mentions the same receiver"""
    from ..facts import must_facts
    g = CFG(g_.node, implicit_exc=False)
    facts = must_facts(g)
    recv = norm(call.func.value)
    for n in g.nodes:
        a = n.ast if n.kind != "for" else None
        if a is not None and any(x is call for x in ast.walk(a)):
            for t, pol in facts.get(n.id, frozenset()):
                if pol and recv in t and (" in " in t or "hasItem(" in t or "isDefined(" in t):
                    return True
    return False


JSON_KINDS = {"str", "int", "float", "bool", "list", "dict", "None"}


def host_data(ctx, model):
    """json.loads hands back str / int / float / bool / list / dict / None.  The converter it is given to either
    tells all of these apart, or the call sits under a handler broad enough (Exception) to turn the host error of
    the kinds it forgot into a language error."""
    from .common import resolve_static_call
    n = 0
    for f in model.all_funcs():
        for c in ast.walk(f.node):
            if not (isinstance(c, ast.Call) and norm(c.func) in ("json.loads", "json.load")):
                continue
            n += 1
            # where does the result go?
            conv = None
            for x in ast.walk(f.node):
                if isinstance(x, ast.Call) and x is not c and x.args and (
                        x.args[0] is c or (isinstance(x.args[0], ast.Name) and any(
                            isinstance(a, ast.Assign) and a.value is c and norm(a.targets[0]) == x.args[0].id
                            for a in ast.walk(f.node)))):
                    conv = resolve_static_call(model, f, x)
                    conv_call = x
            if conv is None:
                ctx.ob("C13.conv", f"{f.qual}: {norm(c)[:50]} [result not handed to a converter]", True)
                continue
            p0 = conv.params[1] if conv.cls is not None else conv.params[0]
            handled = set()
            for t in ast.walk(conv.node):
                if isinstance(t, ast.Compare) and len(t.ops) == 1:
                    l, r = norm(t.left), norm(t.comparators[0])
                    if l == f"type({p0})" and r in JSON_KINDS:
                        handled.add(r)
                    if l == p0 and r == "None":
                        handled.add("None")
                    if l == f"type({p0})" and r == "type(None)":
                        handled.add("None")
                if isinstance(t, ast.Call) and norm(t.func) == "isinstance" and len(t.args) == 2 and norm(t.args[0]) == p0:
                    for k in (t.args[1].elts if isinstance(t.args[1], ast.Tuple) else [t.args[1]]):
                        handled.add(norm(k))
            if "int" in handled and "bool" not in handled and any(
                    isinstance(t, ast.Call) and norm(t.func) == "isinstance" for t in ast.walk(conv.node)):
                handled.add("bool")        # isinstance(x, int) covers bool
            rest = JSON_KINDS - handled
            broad = _in_try_converting(f, conv_call, ("Exception",)) and _handler_is_broad(f, conv_call)
            ok = len(rest) <= 1 or broad
            ctx.check("C13.conv", f, conv_call, ok,
                      f"{norm(c.func)} can return {sorted(JSON_KINDS)}; {conv.qual} tells apart {sorted(handled)} and "
                      f"treats the rest ({sorted(rest)}) alike, and the call is not under a handler for Exception that "
                      f"raises a language error: a host AttributeError / TypeError escapes for the forgotten kind",
                      site=f"{f.qual}: {norm(conv_call)[:50]} covers every JSON kind or is under a broad handler")
    if n == 0:
        ctx.ob("C13.conv", "no json.loads in the package", True)


def _handler_is_broad(f, node):
    """node is inside a try with a bare / Exception / BaseException handler"""
    found = False

    def rec(n, stack):
        nonlocal found
        for ch in ast.iter_child_nodes(n):
            if ch is node:
                for t in stack:
                    for h in t.handlers:
                        if h.type is None or norm(h.type) in ("Exception", "BaseException"):
                            found = True
                return True
            st = stack + [n] if isinstance(n, ast.Try) and ch in n.body else stack
            if rec(ch, st):
                return True
        return False

    rec(f.node, [])
    return found


def _definite_walrus(e):
    """names bound by `:=` in the parts of an expression that are evaluated unconditionally"""
    out = set()
    if isinstance(e, ast.NamedExpr):
        out.add(e.target.id)
        return out | _definite_walrus(e.value)
    if isinstance(e, ast.BoolOp):
        return _definite_walrus(e.values[0])
    if isinstance(e, ast.IfExp):
        return _definite_walrus(e.test)
    if isinstance(e, ast.Compare):
        return _definite_walrus(e.left) | _definite_walrus(e.comparators[0])
    if isinstance(e, (ast.Lambda, ast.ListComp, ast.SetComp, ast.DictComp, ast.GeneratorExp)):
        return out
    for c in ast.iter_child_nodes(e):
        if isinstance(c, ast.expr):
            out |= _definite_walrus(c)
    return out


def unbound(ctx, f):
    from ..callgraph import local_names
    node = f.node
    params = {a.arg for a in node.args.posonlyargs + node.args.args + node.args.kwonlyargs}
    if node.args.vararg:
        params.add(node.args.vararg.arg)
    if node.args.kwarg:
        params.add(node.args.kwarg.arg)
    comp_names = set()
    for n in ast.walk(node):
        if isinstance(n, ast.comprehension):
            for x in ast.walk(n.target):
                if isinstance(x, ast.Name):
                    comp_names.add(x.id)
    nested = [n for n in ast.walk(node) if isinstance(n, (ast.FunctionDef, ast.Lambda)) and n is not node]
    nested_ids = {id(x) for n in nested for x in ast.walk(n)}
    stored = {n.id for n in ast.walk(node) if isinstance(n, ast.Name) and isinstance(n.ctx, ast.Store)
              and id(n) not in nested_ids}
    stored |= {n.name for n in ast.walk(node) if isinstance(n, ast.ExceptHandler) and n.name}
    stored |= {n.name for n in nested if isinstance(n, ast.FunctionDef)}
    for n in ast.walk(node):
        if isinstance(n, (ast.Import, ast.ImportFrom)):
            for a in n.names:
                stored.add((a.asname or a.name).split(".")[0])
        if isinstance(n, ast.Global):
            stored -= set(n.names)
    locals_ = stored - params - comp_names
    if not locals_:
        ctx.ob("C13.unbound", f"{f.qual}: no locals", True)
        return
    g = CFG(node, implicit_exc=True)

    def transfer(n, label, state):
        if label == "exc":
            return state
        s = set(state)
        a = n.ast
        if n.kind == "for" and label == "iter":
            for x in ast.walk(a.target):
                if isinstance(x, ast.Name):
                    s.add(x.id)
        elif n.kind == "handler":
            if n.origin.name:
                s.add(n.origin.name)
        elif n.kind == "with":
            it = n.origin.items[0]
            if it.optional_vars is not None:
                for x in ast.walk(it.optional_vars):
                    if isinstance(x, ast.Name):
                        s.add(x.id)
        elif n.kind == "def":
            s.add(n.origin.name)
        elif a is not None and n.kind in ("test", "return"):
            s |= _definite_walrus(a)
        elif a is not None and n.kind in ("stmt",):
            for x in ast.walk(a):
                if id(x) in nested_ids:
                    continue
                if isinstance(x, ast.Name) and isinstance(x.ctx, ast.Store):
                    s.add(x.id)
                if isinstance(x, (ast.Import, ast.ImportFrom)):
                    for al in x.names:
                        s.add((al.asname or al.name).split(".")[0])
        return frozenset(s)

    st = g.dataflow(frozenset(), transfer, lambda a, b: a & b)
    reported = set()
    for n in g.nodes:
        a = n.ast
        if a is None or n.id not in st:
            continue
        reads = []
        if n.kind == "for":
            reads = [x for x in ast.walk(a.iter)]
        elif n.kind in ("stmt", "test", "return", "with"):
            if isinstance(a, ast.Assign):
                reads = list(ast.walk(a.value)) + [x for t in a.targets for x in ast.walk(t)
                                                   if not (isinstance(x, ast.Name) and isinstance(x.ctx, ast.Store))]
            elif isinstance(a, ast.AugAssign):
                reads = list(ast.walk(a.value)) + [ast.Name(id=a.target.id, ctx=ast.Load())] \
                    if isinstance(a.target, ast.Name) else list(ast.walk(a))
            else:
                reads = list(ast.walk(a))
        have = st[n.id] | {x.target.id for x in reads if isinstance(x, ast.NamedExpr)}
        for x in reads:
            if isinstance(x, ast.Name) and isinstance(x.ctx, ast.Load) and x.id in locals_ and x.id not in have \
                    and id(x) not in nested_ids and x.id not in comp_names:
                if (x.id,) not in reported:
                    reported.add((x.id,))
                    ctx.fail("C13.unbound", f, a if not isinstance(a, ast.expr) else x,
                             f"local `{x.id}` is read on a path on which it has not been assigned: UnboundLocalError",
                             expr=f"{x.id} in {norm(a)[:60]}")
    ctx.ob("C13.unbound", f"{f.qual}: {len(locals_)} locals definitely assigned before use", not reported)


# --------------------------------------------------------------------------------------------------
def zero_and_index(ctx, engine, f, ip):
    divs = [n for n in ast.walk(f.node) if isinstance(n, ast.BinOp) and isinstance(n.op, (ast.Div, ast.FloorDiv, ast.Mod))]
    subs = [n for n in ast.walk(f.node) if isinstance(n, ast.Subscript) and isinstance(n.ctx, ast.Load)
            and _const_index(n.slice) is not None]
    if not divs and not subs:
        return
    g = CFG(f.node, implicit_exc=False)
    facts = must_facts(g)
    where = {}
    for n in g.nodes:
        a = n.ast
        if a is None:
            continue
        for x in ast.walk(a if n.kind != "for" else a.iter):
            where[id(x)] = n
    types = {}
    for ev in ip.events:
        if ev.kind == "binop":
            types[id(ev.node)] = ev.data
        if ev.kind == "subscript":
            types[id(ev.node)] = ev.data
    for d in divs:
        if id(d) not in types:
            continue
        l, r, _ = types[id(d)]
        if known(l) and l.types <= {"str"}:
            continue          # string formatting
        if isinstance(d.right, ast.Constant) and d.right.value not in (0, 0.0):
            ctx.ob("C13.zero", f"{f.qual}: {norm(d)[:60]} [constant divisor]", True)
            continue
        node = where.get(id(d))
        have = facts.get(node.id, frozenset()) if node else frozenset()
        div = norm(d.right)
        roots = {n.id for n in ast.walk(d.right) if isinstance(n, ast.Name)} - {"abs", "len", "float", "int"}
        ok = False
        for t, p in have:
            subj = t.split(" ==")[0].split(" !=")[0]
            sroot = subj.split(".")[0].split("(")[-1] if "(" not in subj.split(".")[0] else subj.split("(")[1].split(".")[0].split(")")[0]
            if not p and (" == 0" in t) and (subj == div or sroot in roots):
                ok = True
            if p and (" != 0" in t) and (subj == div or sroot in roots):
                ok = True
            # strict sign tests exclude zero as well: x > 0, x < 0, x >= 1, x <= -1 (true), x <= 0 / x >= 0 / not x
            # do not; truthiness of the divisor itself does
            for opx, rhs, pol in ((" > ", "0", True), (" < ", "0", True), (" >= ", "1", True), (" <= ", "-1", True),
                                  (" <= ", "0", False), (" >= ", "0", False)):
                if opx in t and p == pol:
                    lhs, _, rr = t.partition(opx)
                    if rr.strip() in (rhs, rhs + ".0") and (lhs == div or lhs in roots):
                        ok = True
            if p and (t == div or t in roots):
                ok = True
        if isinstance(d.right, ast.BinOp) or (known(r) and not (r.types & {"int", "float", "bool"})):
            ok = True if isinstance(d.right, ast.BinOp) and _nonzero_expr(d.right) else ok
        ctx.check("C13.zero", f, d, ok,
                  f"`{norm(d)[:60]}`: the divisor `{div}` is not a non-zero constant and no zero test dominates the "
                  f"operation: ZeroDivisionError", site=f"{f.qual}: {norm(d)[:60]}")
    for s in subs:
        if id(s) not in types:
            continue
        b, i = types[id(s)]
        k = _const_index(s.slice)
        if known(b) and not (b.types <= {"list", "str", "tuple"}):
            continue          # dict lookups and the like are not sequence indexing
        if b.items is not None and -len(b.items) <= k < len(b.items):
            ctx.ob("C13.index", f"{f.qual}: {norm(s)[:60]} [literal of {len(b.items)} items]", True)
            continue
        node = where.get(id(s))
        have = facts.get(node.id, frozenset()) if node else frozenset()
        if node is not None and node.ast is not None:
            from ..facts import short_circuit_facts
            have = set(have) | short_circuit_facts(node.ast if node.kind != "for" else node.ast.iter, s)
        base = norm(s.value)
        need = k + 1 if k >= 0 else -k
        ok = "nonempty" in b.flags and need == 1
        # a conditional expression `X[0] if len(X) == 1 else ..` guards its own branch
        for ie in ast.walk(f.node):
            if isinstance(ie, ast.IfExp) and any(x is s for x in ast.walk(ie.body)):
                t = norm(ie.test)
                if t.startswith(f"len({base}) == ") or t.startswith(f"len({base}) > ") or t == base:
                    ok = True
        for t, p in have:
            if p and t.startswith(f"len({base}) == "):
                try:
                    ok = ok or int(t.split("== ")[1]) >= need
                except ValueError:
                    pass
            if p and (t.startswith(f"len({base}) > ") or t.startswith(f"len({base}) >= ")):
                try:
                    v = int(t.split()[-1])
                    ok = ok or (v + (1 if ">=" not in t else 0)) >= need
                except ValueError:
                    pass
            if not p and t.startswith(f"len({base}) != "):
                try:
                    ok = ok or int(t.split("!= ")[1]) >= need
                except ValueError:
                    pass
            if not p and t.startswith(f"len({base}) < "):
                try:
                    ok = ok or int(t.split("< ")[1]) >= need
                except ValueError:
                    pass
            if not p and t in (f"{base} == ''", f'{base} == ""', f"len({base}) == 0", f"not {base}"):
                ok = ok or need == 1
            if p and t == base:
                ok = ok or need == 1
        ctx.check("C13.index", f, s, ok,
                  f"`{norm(s)[:60]}`: constant index {k} into a sequence whose length is not bounded by a dominating "
                  f"test: IndexError when it is shorter", site=f"{f.qual}: {norm(s)[:60]}")


def _nonzero_expr(e):
    return False


def _const_index(sl):
    if isinstance(sl, ast.Constant) and isinstance(sl.value, int) and not isinstance(sl.value, bool):
        return sl.value
    if isinstance(sl, ast.UnaryOp) and isinstance(sl.op, ast.USub) and isinstance(sl.operand, ast.Constant) \
            and isinstance(sl.operand.value, int):
        return -sl.operand.value
    return None


def index_other_sequence(ctx, f):
    """Deviant guard: `A[i] if i < len(B) else ..` / `if i < len(B): .. A[i]` - the guard that was written
    bounds the index by the length of a different sequence than the one it protects."""
    def guard(test):
        # -> (index name, sequence text) for `i < len(B)` / `len(B) > i`
        if isinstance(test, ast.Compare) and len(test.ops) == 1:
            l, r, op = test.left, test.comparators[0], test.ops[0]
            if isinstance(op, ast.Lt) and isinstance(l, ast.Name) and isinstance(r, ast.Call) and norm(r.func) == "len":
                return l.id, norm(r.args[0])
            if isinstance(op, ast.Gt) and isinstance(r, ast.Name) and isinstance(l, ast.Call) and norm(l.func) == "len":
                return r.id, norm(l.args[0])
        return None

    for n in ast.walk(f.node):
        region = None
        if isinstance(n, ast.IfExp):
            region = [n.body]
        elif isinstance(n, ast.If):
            region = n.body
        if region is None:
            continue
        g = guard(n.test)
        if g is None:
            continue
        idx, seq = g
        accesses = [x for r in region for x in ast.walk(r) if isinstance(x, ast.Subscript)
                    and isinstance(x.slice, ast.Name) and x.slice.id == idx and isinstance(x.ctx, ast.Load)]
        if not accesses:
            continue
        if any(norm(x.value) == seq for x in accesses):
            # the guard protects an access to its own sequence; other sequences are bounded elsewhere
            ctx.ob("C13.index", f"{f.qual}: {seq}[{idx}] guarded by {norm(n.test)}", True)
            continue
        for x in accesses:
            base = norm(x.value)
            ok = base == seq
            ctx.check("C13.index", f, x, ok,
                      f"`{norm(x)}` is guarded by `{norm(n.test)}`: the guard bounds the index by the length of "
                      f"`{seq}`, not of `{base}`: IndexError when {base} is the shorter one",
                      site=f"{f.qual}: {norm(x)} guarded by {norm(n.test)}")


# --------------------------------------------------------------------------------------------------
def _accepts(func, npos, kw):
    a = func.node.args
    params = [x.arg for x in a.posonlyargs + a.args]
    if func.cls is not None and params[:1] in (["self"], ["cls"]):
        params = params[1:]
    ndef = len(a.defaults)
    required = len(params) - ndef
    if a.vararg is not None:
        return npos >= required - len([k for k in kw if k in params])
    supplied = npos + len([k for k in kw if k in params])
    return required <= supplied and npos <= len(params)


def arity(ctx, model, funcs):
    cg = CallGraph(model)
    n = 0
    for f in funcs:
        for r in cg.refs(f):
            if not r.is_call or r.call is None:
                continue
            call = r.call
            if any(isinstance(a, ast.Starred) for a in call.args) or any(k.arg is None for k in call.keywords):
                continue
            npos = len(call.args)
            kw = [k.arg for k in call.keywords]
            targets = []
            if r.kind in ("func", "ctor", "selfcall"):
                targets = cg.targets(f, r)
            elif r.kind == "dispatch" and r.target in ("execute", "evaluate"):
                targets = cg.targets(f, r)
            if not targets:
                continue
            n += 1
            ok = any(_accepts(t, npos, kw) for t in targets)
            ctx.ob("C13.arity", f"{f.qual}: {norm(call)[:70]}", ok)
            if not ok:
                t0 = targets[0]
                ctx.fail("C13.arity", f, call,
                         f"call passes {npos} positional argument(s) but {t0.qual} (and every other possible "
                         f"target) does not accept that many: TypeError")
    if n < 300:
        ctx.broken("C13.arity", f"only {n} resolved calls")


def ckl_set_fill(ctx, model):
    """Library code: a loop `while length(R) < N` that fills the SET R (duplicates do not grow it) terminates only
    if at least N distinct elements exist; that must be established by a guard on `length(set(source))`."""
    from .. import cklsrc
    n = 0
    for fn, (src, _) in sorted(model.ckl_modules.items()):
        try:
            toks = cklsrc.tokenize(src)
            funcs = cklsrc.functions(toks)
        except cklsrc.CklTokenError as e:
            ctx.broken(f"modules/{fn}", str(e))
        for f in funcs:
            body = cklsrc.own_body(f)
            sets = {body[i + 1].text for i in range(len(body) - 4) if body[i].is_id("def") and body[i + 1].kind == "id"
                    and body[i + 2].is_p("=") and body[i + 3].is_p("<<") and body[i + 4].is_p(">>")}
            for i in range(len(body) - 6):
                if body[i].is_id("while") and body[i + 1].is_id("length") and body[i + 2].is_p("(") \
                        and body[i + 3].kind == "id" and body[i + 3].text in sets and body[i + 4].is_p(")") \
                        and body[i + 5].is_p("<") and body[i + 6].kind == "id":
                    r, bound = body[i + 3].text, body[i + 6].text
                    n += 1
                    pre = body[:i]
                    ok = False
                    for k in range(len(pre) - 8):
                        if pre[k].is_id("length") and pre[k + 1].is_p("(") and pre[k + 2].is_id("set") and pre[k + 3].is_p("("):
                            end = cklsrc._skip_group(pre, k + 1)
                            if end + 1 < len(pre) and pre[end].is_p("<") and pre[end + 1].kind == "id" \
                                    and pre[end + 1].text == bound:
                                rest = pre[end + 2:end + 6]
                                if any(t.is_id("error") for t in rest):
                                    ok = True
                    ctx.ob("C13.ckl.fill", f"modules/{fn}: {f.qual}: while length({r}) < {bound}", ok)
                    if not ok:
                        ctx.fail("C13.ckl.fill", f"modules/{fn}:{f.qual}", None,
                                 f"{f.qual} fills the set `{r}` until it has `{bound}` elements but no guard establishes "
                                 f"that the source has that many DISTINCT elements (length(set(..)) < {bound} -> error): "
                                 f"with duplicates the loop never terminates",
                                 expr=f"{f.qual}: while length({r}) < {bound}", file=f"src/ckl/modules/{fn}",
                                 line=body[i].line)
    if n < 1:
        ctx.broken("C13.ckl.fill", "no set-filling loop found in the library (sample)")
