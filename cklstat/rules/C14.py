"""C14 - Program meaning is independent of layout, comments and literal spelling.

Decided on the scanner table extracted from Lexer.scan (E6) and on the statement-separator loops:
  C14.ws      between tokens exactly ' \\t\\r\\n' is skipped; '#' starts a comment that ends only at '\\n'
  C14.term    every token-accumulating and look-ahead state ends its token (emit, unread, back to the
              start state) on every whitespace character, on '#', and on every character that starts an
              operator or punctuation token - so spaces, tabs, CR/LF and comments are interchangeable
              as separators and a literal may be directly followed by an operator
  C14.twin    the double-quote and single-quote string automata are the same up to the quote character
  C14.num     every numeric state strips '_'; hex / binary literals are emitted as decimal text
  C14.ne      '!=' and '<>' are scanned as operators and parsed to the same native
  C14.sep     the statement-separator loops accept a trailing ';'
Not decided: 'never changes the result' as a whole (needs runs); redundant parentheses.
"""
import ast
import re

from ..core import norm
from ..lexmodel import LexModel, LexShapeError

P = "C14"
WS = " \t\r\n"
EXPLANATION = __doc__
TECHNIQUE = "extracted scanner automaton: set agreement, structural twin comparison, terminator coverage"
LEVEL_TEXT = (
    "Static analysis of the hand-written scanner, extracted into a transition table from the AST: decides that "
    "whitespace/CR/LF/comment handling, token terminators, the two quote styles, numeral spellings and the two "
    "inequality spellings are treated uniformly in every state, and that trailing semicolons are accepted. These "
    "are necessary structural conditions of layout independence for every program text; the behavioural "
    "equivalence of re-rendered programs itself is not decided.")
LEVEL_NOTE = ("Trusted: CPython ast; the scanner-shape extractor (unknown statement or condition shapes stop the "
              "analysis with exit 2 instead of guessing).")
ASSUMPTIONS = ["the scanner keeps the shape `while pos < len: ch = ...; if state == K: ...` (else exit 2)"]
FLOORS = {"C14.term": 60, "C14.twin": 6, "C14.num": 4, "C14.ws": 8}


def run(ctx):
    try:
        lm = LexModel(ctx.model, P)
    except LexShapeError as e:
        ctx.broken("Lexer.scan", str(e))
    fn = lm.func
    alphabet = lm.alphabet()
    if lm.OTHER in alphabet:
        ctx.broken("Lexer.scan", "representative 'other' character is mentioned by the scanner")
    if lm.init.get("state") != "0":
        ctx.broken("Lexer.scan", "initial state is not 0")
    if 0 not in lm.states:
        ctx.broken("Lexer.scan", "state 0 missing")

    # ------------------------------------------------------------------ C14.ws
    universe = sorted(alphabet | {lm.OTHER})
    ignored = []
    for c in universe:
        leaves = lm.step(0, c)
        if all(not l.appends and not l.emits and lm.target(l) == 0 and not l.unread and not l.raises
               for l in leaves):
            ignored.append(c)
    ctx.check("C14.ws", fn, None, sorted(ignored) == sorted(WS),
              f"characters skipped between tokens are {sorted(ignored)!r}, expected exactly {sorted(WS)!r}",
              expr="state 0 ignored set", site="state 0: set of characters skipped between tokens")
    # comment state
    hash_leaves = lm.step(0, "#")
    comment_states = {lm.target(l) for l in hash_leaves}
    ok = len(comment_states) == 1 and all(not l.appends and not l.emits for l in hash_leaves)
    ctx.check("C14.ws", fn, None, ok, "'#' in the start state does not lead to a single comment state",
              expr="state 0 on '#'", site="state 0: '#' starts a comment")
    if ok:
        cs = comment_states.pop()
        for c in universe:
            leaves = lm.step(cs, c)
            if c == "\n":
                good = all(lm.target(l) == 0 and not l.appends and not l.emits and not l.unread for l in leaves)
                msg = "newline does not end a comment"
            else:
                good = all(lm.target(l) == cs and not l.appends and not l.emits and not l.unread
                           and not l.raises for l in leaves)
                msg = f"character {c!r} inside a comment has an effect or ends it"
            ctx.check("C14.ws", fn, None, good, msg, expr=f"comment state on {c!r}",
                      site=f"comment state {cs} on {c!r}")

    # ------------------------------------------------------------------ C14.term
    # D: characters that start a separator, comment, operator or punctuation token in the start state
    D = set(WS) | {"#"}
    for c in universe:
        for l in lm.step(0, c):
            if any(e.type in ("interpunction", "operator") for e in l.emits):
                D.add(c)
            tgt = lm.target(l)
            if tgt != 0 and tgt in lm.states:
                # look-ahead states emit operator / interpunction tokens
                if any(e.type in ("operator", "interpunction") for ll in lm.states[tgt] for e in ll.emits) \
                        and not any(e.type in ("string", "int", "decimal", "identifier", "keyword")
                                    for ll in lm.states[tgt] for e in ll.emits):
                    D.add(c)
    # token states: those that have an emitting, unreading leaf (a token ended by look-ahead)
    token_states = sorted(s for s in lm.states if s != 0
                          and any(l.unread or (l.emits and ("ch",) not in l.appends)
                                  for l in lm.step(s, " ")))
    if len(token_states) < 8:
        ctx.broken("Lexer.scan", f"only {len(token_states)} look-ahead states found")
    accumulating = sorted(s for s in token_states
                          if any(l.appends == [("ch",)] and lm.target(l) == s for l in lm.states[s]))
    strict = set(WS) | {"#"}
    for s in token_states:
        for c in sorted(D):
            leaves = [l for l in lm.step(s, c) if not l.raises]
            if not leaves:
                continue

            def ends_token(l):
                return l.unread and lm.target(l) != s

            def continues(l):
                if l.unread:
                    return False
                if ("ch",) in l.appends or any(a[0] == "lit" and c in a[1] for a in l.appends):
                    return True
                return any(isinstance(e.value, ast.Constant) and isinstance(e.value.value, str)
                           and c in e.value.value for e in l.emits)

            if c in strict or s in accumulating:
                good = all(ends_token(l) for l in leaves)
            else:
                good = all(ends_token(l) or continues(l) for l in leaves)
            ctx.check("C14.term", fn, None, good,
                      f"state {s} does not end its token on {c!r} (the token would swallow or drop the "
                      f"separator/operator)", expr=f"state {s} on {c!r}", site=f"state {s} on {c!r}")
        for l in lm.states[s]:
            if l.unread:
                ctx.check("C14.term", fn, None, l.updatepos_false,
                          f"state {s}: character is unread without suppressing the second line/column update",
                          expr=f"state {s} unread leaf [{l.cond_text()[:60]}]",
                          site=f"state {s}: unread leaf keeps line/column [{l.cond_text()[:40]}]")

    # ------------------------------------------------------------------ C14.twin
    dq = {lm.target(l) for l in lm.step(0, '"') if lm.target(l) != 0}
    sq = {lm.target(l) for l in lm.step(0, "'") if lm.target(l) != 0}
    if len(dq) != 1 or len(sq) != 1:
        ctx.broken("Lexer.scan", "string start states not found")
    a0, b0 = dq.pop(), sq.pop()
    mapping = {a0: b0, 0: 0}
    todo = [(a0, b0)]
    compared = set()

    def sig(l, quote, other_quote, smap):
        conds = l.cond_text().replace(repr(quote), "Q")
        tgt = lm.target(l)
        return (conds, tuple(l.appends), tuple((e.value_text, e.type) for e in l.emits),
                bool(l.unread), bool(l.raises), tuple(l.tempbuf), bool(l.token_reset),
                tuple(t for t, g in l.conversions), tuple(g for t, g in l.conversions))

    while todo:
        a, b = todo.pop()
        if (a, b) in compared:
            continue
        compared.add((a, b))
        la, lb = lm.states.get(a, []), lm.states.get(b, [])
        same = len(la) == len(lb)
        for x, y in zip(la, lb):
            if sig(x, '"', "'", mapping) != sig(y, "'", '"', mapping):
                same = False
            tx, ty = lm.target(x), lm.target(y)
            if tx in mapping:
                if mapping[tx] != ty:
                    same = False
            else:
                mapping[tx] = ty
                todo.append((tx, ty))
        ctx.check("C14.twin", fn, None, same,
                  f"string states {a} (double quote) and {b} (single quote) differ beyond the quote character",
                  expr=f"states {a} vs {b}", site=f"quote twins: state {a} vs state {b}")
    # both emit type string
    for s in (a0, b0):
        emits = [e.type for l in lm.states[s] for e in l.emits]
        ctx.check("C14.twin", fn, None, emits == ["string"], f"string state {s} emits {emits}",
                  expr=f"state {s} emission", site=f"state {s} emits one string token")

    # ------------------------------------------------------------------ C14.num
    for s, leaves in sorted(lm.states.items()):
        for l in leaves:
            for e in l.emits:
                if e.type not in ("int", "decimal"):
                    continue
                texts = [e.value_text] + [norm(r) for r in l.token_rewrites]
                strips = any("replace('_', '')" in t for t in texts)
                ctx.check("C14.num", fn, e.node, strips,
                          f"state {s} emits a numeric token without stripping '_' separators",
                          expr=f"state {s} emit {e.value_text}", site=f"state {s}: numeric emission strips '_'")
    # radix states: reached from the zero-prefix state on 'x' / 'b'
    zero = {lm.target(l) for l in lm.step(0, "0") if lm.target(l) != 0}
    if len(zero) != 1:
        ctx.broken("Lexer.scan", "zero-prefix state not found")
    z = zero.pop()
    for c, radix in (("x", 16), ("b", 2)):
        tg = {lm.target(l) for l in lm.step(z, c) if l.matches(c) is True}
        if len(tg) != 1:
            ctx.broken("Lexer.scan", f"radix state for 0{c} not found")
        rs = tg.pop()
        for l in lm.states[rs]:
            for e in l.emits:
                texts = [e.value_text] + [norm(r) for r in l.token_rewrites]
                ok = e.type == "int" and any(t.startswith("str(int(") and t.endswith(f", {radix}))") for t in texts)
                ctx.check("C14.num", fn, e.node, ok,
                          f"0{c} literal is not emitted as the decimal text of its base-{radix} value",
                          expr=f"state {rs} emit {e.value_text}", site=f"state {rs}: 0{c} literal -> decimal text")
    # the zero-prefix state falls back to the ordinary number state with the '0' kept
    fb = [l for l in lm.step(z, "1")]
    ok = all(l.unread and ("lit", "0") in l.appends for l in fb) and \
        {lm.target(l) for l in fb} == {lm.target(l) for l in lm.step(0, "1")}
    ctx.check("C14.num", fn, None, ok, "a leading 0 not followed by x/b is not re-scanned as an ordinary number",
              expr=f"state {z} fallback", site=f"state {z}: fallback to the number state keeps the 0")

    # ------------------------------------------------------------------ C14.ne / C14.sep (parser)
    parser = ctx.model.module(P, "parser")
    rel = ctx.model.func(P, "parser", "parse_rel_expr")
    from .common import operator_natives
    natives = operator_natives(ctx.model, rel)
    if not natives:
        ctx.broken("parse_rel_expr", "the comparison loop is not understood (no token -> native pair extracted)")
    ok = "!=" in natives and "<>" in natives and natives["!="] == natives["<>"] == "not_equals"
    ctx.check("C14.ne", rel, None, ok, f"'!=' and '<>' do not map to the same native: {natives}",
              expr="relop table", site="parse_rel_expr: '!=' and '<>' -> not_equals")
    for spelling in ("!=", "<>"):
        chars = list(spelling)
        leaves = [l for l in lm.step(0, chars[0]) if lm.target(l) != 0]
        nxt = {lm.target(l) for l in leaves}
        emitted = set()
        for s in nxt:
            for l in lm.step(s, chars[1]):
                for e in l.emits:
                    if not l.unread:
                        emitted.add((e.type, e.value_text))
        ok = any(t == "operator" for t, _ in emitted)
        ctx.check("C14.ne", fn, None, ok, f"{spelling!r} is not scanned as one operator token",
                  expr=f"scan {spelling}", site=f"scanner: {spelling!r} -> operator token")

    pb = ctx.model.func(P, "parser", "parse_block")
    pbb = ctx.model.func(P, "parser", "parse_bare_block")
    # parse_bare_block: while matchIf(';'): if not hasNext(): break
    ok = False
    for n in ast.walk(pbb.node):
        if isinstance(n, ast.While) and "matchIf(';'" in norm(n.test):
            first = n.body[0] if n.body else None
            if isinstance(first, ast.If) and norm(first.test) == "not lexer.hasNext()" \
                    and isinstance(first.body[0], ast.Break):
                ok = True
    ctx.check("C14.sep", pbb, None, ok, "top-level statement loop requires a statement after a trailing ';'",
              expr="trailing ';' at end of input", site="parse_bare_block: ';' at end of input ends the sequence")
    # parse_block: inside the statement loop, after lexer.match(';') the loop leaves on end/catch/finally
    ok = False
    for n in ast.walk(pb.node):
        if isinstance(n, ast.While):
            body = n.body
            for i, st in enumerate(body):
                if isinstance(st, ast.Expr) and norm(st.value).startswith("lexer.match(';'"):
                    nxt = body[i + 1] if i + 1 < len(body) else None
                    if isinstance(nxt, ast.If) and "peekn(1, 'end'" in norm(nxt.test) \
                            and isinstance(nxt.body[0], ast.Break):
                        ok = True
                    elif nxt is None and "peekn(1, 'end'" in norm(n.test):
                        ok = True
    ctx.check("C14.sep", pb, None, ok, "a ';' before end/catch/finally is not accepted in a block",
              expr="trailing ';' in block", site="parse_block: ';' before end/catch/finally is accepted")
    # finally section: a statement is added to the block whether or not a ';' follows it
    from .C05 import _as_func
    from ..cfg import CFG
    from ..pathcount import must_pass
    fin = [n for n in ast.walk(pb.node) if isinstance(n, ast.If) and norm(n.test) == "lexer.matchIf('finally', 'keyword')"]
    ok = False
    if len(fin) == 1:
        lp = [n for n in fin[0].body if isinstance(n, ast.While)]
        if len(lp) == 1:
            g2 = CFG(_as_func(lp[0].body), implicit_exc=False)

            def tag(node, label):
                a = node.ast
                if a is not None and node.kind != "for":
                    for x in ast.walk(a):
                        if isinstance(x, ast.Call) and norm(x.func) == "block.addFinally":
                            return "added"
                return None

            ok = "added" in must_pass(g2, tag).get(g2.exit.id, frozenset())
    ctx.check("C14.sep", pb, None, ok,
              "in a finally section a statement is kept only when a ';' follows it: the optional trailing ';' "
              "changes which statements run", expr="finally section: ';' optional",
              site="parse_block: finally statements are kept with or without a trailing ';'")

    # catch section: the optional ';' after a handler is looked for whatever form the handler took
    cl = [n for n in ast.walk(pb.node) if isinstance(n, ast.While) and "matchIf('catch'" in norm(n.test)]
    if len(cl) != 1:
        ctx.broken("parse_block", "catch-clause loop not found")
    g3 = CFG(_as_func(cl[0].body), implicit_exc=False)

    def tag3(node, label):
        a = node.ast
        if a is None or node.kind == "for":
            return None
        for x in ast.walk(a):
            if isinstance(x, ast.Call) and norm(x.func) in ("lexer.peekn", "lexer.matchIf", "lexer.match") \
                    and any(isinstance(y, ast.Constant) and y.value == ";" for y in ast.walk(x)):
                return "semi"
        return None

    ok = "semi" in must_pass(g3, tag3).get(g3.exit.id, frozenset())
    ctx.check("C14.sep", pb, cl[0], ok,
              "after a catch handler the optional ';' is looked for on some paths only (e.g. only after a statement "
              "handler, not after a `do .. end` handler): the same program with and without that ';' parses "
              "differently", expr="catch section: ';' optional after every handler",
              site="parse_block: optional ';' after every catch handler, block or statement")

    # statement section: a `;` is demanded only where none of end / catch / finally follows (so the last statement may
    # omit it before each of the three)
    # (the loop is the one that adds statements to the block; terminator tests may sit in a helper predicate)
    from .common import resolve_static_call

    def expand(test_text):
        """`helper(lexer)` -> the expression the helper returns, when the helper is a single `return <expr>`"""
        try:
            e_ = ast.parse(test_text, mode="eval").body
        except SyntaxError:
            return test_text
        if isinstance(e_, ast.Call) and isinstance(e_.func, ast.Name) and e_.func.id in parser.funcs:
            h_ = parser.funcs[e_.func.id]
            b_ = [x for x in h_.node.body if not (isinstance(x, ast.Expr) and isinstance(x.value, ast.Constant))]
            if len(b_) == 1 and isinstance(b_[0], ast.Return) and b_[0].value is not None:
                return norm(b_[0].value)
        return test_text

    sl = [n for n in ast.walk(pb.node) if isinstance(n, ast.While) and any(
        isinstance(c_, ast.Call) and norm(c_.func) == "block.add" for c_ in ast.walk(n))]
    if len(sl) != 1:
        ctx.broken("parse_block", "statement loop not found")
    from ..facts import must_facts as _mf4, split_test as _st4

    def semi_rule(loop_, required_, label_):
        # the loop test holds at the top of the body (the keywords it excludes are excluded until a token is consumed)
        g4 = CFG(_as_func(loop_.body), implicit_exc=False)
        f4 = _mf4(g4)
        n_semi = 0
        for node in g4.nodes:
            a = node.ast
            if a is None or node.kind == "for":
                continue
            for x in ast.walk(a):
                if isinstance(x, ast.Call) and norm(x.func) == "lexer.match" and x.args and norm(x.args[0]) == "';'":
                    have = set(f4.get(node.id, frozenset()))
                    for t_, pol_ in list(have):
                        et = expand(t_)
                        if et != t_:
                            try:
                                have |= _st4(ast.parse(et, mode="eval").body, pol_)
                            except SyntaxError:
                                pass
                    excluded = set()
                    for t_, pol_ in have:
                        if pol_:
                            continue
                        try:
                            e_ = ast.parse(t_, mode="eval").body
                        except SyntaxError:
                            continue
                        if isinstance(e_, ast.Call) and norm(e_.func) == "lexer.peekn" and len(e_.args) >= 2 \
                                and norm(e_.args[0]) == "1" and isinstance(e_.args[1], ast.Constant):
                            excluded.add(e_.args[1].value)
                        elif isinstance(e_, ast.Call) and norm(e_.func) == "lexer.peekOne" and len(e_.args) >= 2 \
                                and norm(e_.args[0]) == "1" and isinstance(e_.args[1], (ast.List, ast.Tuple)):
                            excluded |= {x_.value for x_ in e_.args[1].elts if isinstance(x_, ast.Constant)}
                    missing = [kw for kw in required_ if kw not in excluded]
                    n_semi += 1
                    ctx.check("C14.sep", pb, x, not missing,
                              f"in a block a ';' is demanded after a statement although {missing} may follow: the optional "
                              f"';' of the last statement becomes mandatory before {' / '.join(missing)}",
                              expr=f"{label_}: ';' optional before {' / '.join(required_)}",
                              site=f"parse_block: {label_}: ';' demanded only when no {' / '.join(required_)} follows")
        if n_semi == 0 and label_ == "statement section":
            ctx.broken("parse_block", f"no `lexer.match(';')` in the {label_} loop")
        if n_semi == 0:
            # nothing demands a ';' here (matchIf / peekn are optional by construction)
            ctx.ob("C14.sep", f"parse_block: {label_}: no ';' is demanded", True)

    semi_rule(sl[0], ("end", "catch", "finally"), "statement section")
    if len(fin) == 1 and len(lp) == 1:
        semi_rule(lp[0], ("end",), "finally section")
    else:
        ctx.broken("parse_block", "finally-section loop not found")

    # a token's text alone never decides: a string literal can carry any text ('not', 'end', '=='), so every test of
    # <token>.value against a literal comes with a test of the same token's type
    from ..facts import short_circuit_facts
    n_kw = 0
    for f in parser.funcs.values():
        sites = [c for c in ast.walk(f.node) if isinstance(c, ast.Compare) and len(c.ops) == 1
                 and isinstance(c.left, ast.Attribute) and c.left.attr == "value"
                 and (norm(c.left.value) == "lexer.peek()" or (isinstance(c.left.value, ast.Name) and "tok" in c.left.value.id.lower()))
                 and (isinstance(c.comparators[0], ast.Constant) and isinstance(c.comparators[0].value, str)
                      or isinstance(c.comparators[0], (ast.List, ast.Tuple, ast.Name)))]
        if not sites:
            continue
        g5 = CFG(f.node, implicit_exc=False)
        from .C01 import _kills_cursor
        f5 = _mf4(g5, kills=_kills_cursor)          # facts about the look-ahead token die when the cursor moves
        for c in sites:
            tokexpr = norm(c.left.value)
            have = set()
            for node in g5.nodes:
                a = node.ast if node.kind != "for" else (node.ast.iter if node.ast is not None else None)
                if a is not None and any(x is c for x in ast.walk(a)):
                    have = set(f5.get(node.id, frozenset())) | short_circuit_facts(a, c)
                    # the comparison may itself be one operand of a conjunction whose other operands come later
                    for b in ast.walk(a):
                        if isinstance(b, ast.BoolOp) and any(x is c for x in b.values):
                            for v in b.values:
                                have |= {(norm(v), True)} if isinstance(b.op, ast.And) else set()
                        if isinstance(b, ast.BoolOp) and isinstance(b.op, ast.Or) and any(x is c for x in b.values):
                            # `not a or x.value not in S or x.type not in T`: the negations are what holds afterwards
                            for v in b.values:
                                have |= {(norm(v), False)}
            typed = any(t.startswith(f"{tokexpr}.type") for t, pol in have)
            n_kw += 1
            ctx.check("C14.kw", f, c, typed,
                      f"`{norm(c)[:60]}` decides on the text of a token without looking at its type: a string literal "
                      f"with that text is taken for the keyword / operator", expr=f"token text test {norm(c)[:60]}",
                      site=f"{f.qual}: {norm(c)[:50]} together with a test of {tokexpr}.type")
    if n_kw < 10:
        ctx.broken("parser.py", f"only {n_kw} token-text tests found")

    # hex escapes: the character appended for \\xNN is the code point NN itself (chr(int(<two hex digits>, 16))), for
    # every NN - not a byte decoded under some text encoding, which has no character for 0x80..0xff
    n_esc = 0
    for st_, leaves in sorted(lm.states.items()):
        for l in leaves:
            for a in l.appends:
                if a[0] != "expr":
                    continue
                n_esc += 1
                txt = a[1]
                try:
                    e_ = ast.parse(txt, mode="eval").body
                except SyntaxError:
                    ctx.broken("Lexer.scan", f"escape append `{txt}` not understood")
                by_code_point = any(
                    isinstance(c_, ast.Call) and norm(c_.func) == "chr" and c_.args and any(
                        isinstance(i_, ast.Call) and norm(i_.func) == "int" and (
                            (len(i_.args) == 2 and norm(i_.args[1]) == "16") or
                            any(k.arg == "base" and norm(k.value) == "16" for k in i_.keywords))
                        for i_ in ast.walk(c_.args[0])) for c_ in ast.walk(e_))
                by_encoding = any(isinstance(c_, ast.Attribute) and c_.attr in ("decode", "fromhex")
                                  or isinstance(c_, ast.Name) and c_.id in ("bytes", "bytearray", "codecs")
                                  for c_ in ast.walk(e_))
                if not by_code_point and not by_encoding:
                    ctx.broken("Lexer.scan", f"escape append `{txt}` not understood")
                ctx.check("C14.num", fn, None, by_code_point and not by_encoding,
                          f"state {st_} appends `{txt}` for an escape: a byte decoded under a text encoding, not the "
                          f"code point of the two hex digits (chr(int(.., 16))): no character for \\x80..\\xff, so the "
                          f"escaped and the literal spelling of a character differ",
                          expr=f"state {st_} escape {txt}", site=f"state {st_}: \\xNN -> chr(int(NN, 16))")
    if n_esc < 2:
        ctx.broken("Lexer.scan", "hex-escape appends not found")
