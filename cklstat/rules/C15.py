"""C15 - Indexing, slicing and sub-sequence functions follow the sequence model.

Decided statically (interval analysis E5 relative to len(sequence)):
  C15.bounds    at every host subscript on a user sequence in the index / slice / sub-sequence evaluators the
                index is proven within [0, len) (outside it Python raises IndexError or silently counts from the
                end), every slice bound is proven non-negative (a negative bound makes Python count from the end:
                the wrap-around the property forbids), and every range-driven subscript stays inside [0, len)
  C15.zero      a position that came from the program is never tested by truthiness (`x or default`,
                `if not x`): 0 is a legitimate position
  C15.position  insert_at / delete_at change the list at an index (del lst[i] / lst.insert(i, v) / append at
                the end), never by searching for a value
  C15.normal    a negative user index is normalised by adding the length exactly once, before the range test
Not decided: that the right run is returned (value-level identities such as s[0 to k] + s[k to *] == s).
"""
import ast

from ..core import norm
from ..intervals import Bounds, le, show
from ..kinds import Engine
from ..cfg import CFG
from ..facts import split_test
from .common import known, bounds_summaries, resolve_static_call

P = "C15"
EXPLANATION = __doc__
TECHNIQUE = "interval analysis relative to len(S) over per-function CFGs; kind inference for truthiness tests " \
            "on positions"
LEVEL_TEXT = (
    "Static bounds analysis of every subscript, slice and range-driven access on user sequences in the indexing "
    "evaluators and sub-sequence built-ins: proves indices inside [0, len) and slice bounds non-negative for all "
    "index values, so no IndexError and no wrap-around can occur there; additionally forbids truthiness tests on "
    "positions and value-based deletion. That the selected run is the intended one is value-level and not decided.")
LEVEL_NOTE = "Trusted: the interval domain (E5) with len(S) >= 0 as its only arithmetic fact about lengths."
ASSUMPTIONS = []
SEQ_NATIVES = {"find", "find_last", "substr", "sublist", "insert_at", "delete_at"}
FLOORS = {"C15.bind": 6, "C15.bounds": 16, "C15.position": 2, "C15.normal": 4}

ANCHORS = [("NodeDeref", "evaluate"), ("NodeDerefAssign", "evaluate"), ("NodeDerefSlice", "evaluate"),
           ("FuncSublist", "execute"), ("FuncSubstr", "execute"), ("FuncFind", "execute"),
           ("FuncFindLast", "execute"), ("FuncInsertAt", "execute"), ("FuncDeleteAt", "execute"),
           ("ValueList", "insertAt"), ("ValueList", "deleteAt"), ("FuncSorted", "execute")]
SEQS = {"s", "lst", "value", "self.value", "result", "obj.value"}


def run(ctx):
    model = ctx.model
    engine = Engine(model)
    # the bundled modules hand the sequence natives out under their own names (List->find_last is find_last)
    from .C19 import bound_names
    from .. import cklsrc
    bound_names(ctx, model, rule="C15.bind", prop=P, only=SEQ_NATIVES)
    seen = {nat for fn, (src, _) in model.ckl_modules.items()
            for nat, alias, _l in cklsrc.bind_native_calls(cklsrc.tokenize(src))[0] if alias in (None, nat)}
    for nat in sorted(SEQ_NATIVES):
        ctx.ob("C15.bind", f"modules: `{nat}` is exported by the bundled modules only under its own name",
               nat in seen)
        if nat not in seen:
            ctx.broken(f"modules/*.ckl", f"no bind_native({nat!r}) found in the bundled modules")
    for qual in ANCHORS:
        m = model.method(P, *qual)
        b = Bounds(m.node, summaries=bounds_summaries(model, m))
        g = b.g
        for node in g.nodes:
            a = node.ast
            if a is None:
                continue
            exprs = [a] if node.kind != "for" else [a.iter]
            st = b.at(node)
            for e in exprs:
                for x in ast.walk(e):
                    if isinstance(x, ast.Subscript) and norm(x.value) in SEQS:
                        seq = norm(x.value)
                        if isinstance(x.slice, ast.Slice):
                            for part, nm in ((x.slice.lower, "lower"), (x.slice.upper, "upper")):
                                if part is None:
                                    continue
                                lo, hi = b.ev(part, st)
                                ok = lo is not None and le(("c", 0), lo) is True
                                ctx.check("C15.bounds", m, x, ok,
                                          f"{nm} bound `{norm(part)}` of the slice {norm(x)} is not proven "
                                          f"non-negative (lower bound {show(lo)}): a negative bound makes Python "
                                          f"count from the end again (wrap-around)",
                                          expr=f"{norm(x)} {nm}", site=f"{m.qual}: slice {norm(x)} {nm} bound >= 0")
                        else:
                            lo, hi = b.ev(x.slice, st)
                            ok_lo = lo is not None and le(("c", 0), lo) is True
                            ok_hi = hi is not None and le(hi, ("len", seq, -1)) is True
                            ctx.check("C15.bounds", m, x, ok_lo and ok_hi,
                                      f"index `{norm(x.slice)}` of {norm(x)} is not proven inside [0, len({seq})) "
                                      f"(derived range [{show(lo)}, {show(hi)}]): IndexError or an access counted "
                                      f"from the end", site=f"{m.qual}: {norm(x)} in [0, len({seq}))")
                    if isinstance(x, ast.Call) and isinstance(x.func, ast.Attribute) and x.func.attr == "insert" \
                            and norm(x.func.value) in SEQS and x.args:
                        lo, hi = b.ev(x.args[0], st)
                        ok = lo is not None and le(("c", 0), lo) is True
                        ctx.check("C15.bounds", m, x, ok,
                                  f"insert position `{norm(x.args[0])}` is not proven non-negative "
                                  f"(lower bound {show(lo)})", site=f"{m.qual}: {norm(x)[:50]} position >= 0")

    # ---------------------------------------------------------------- truthiness of positions
    for qual in ANCHORS[:9]:
        m = model.method(P, *qual)
        ip = engine.interp(m)
        n_truth = 0
        for ev in ip.events:
            if ev.kind != "truth":
                continue
            (v,) = ev.data
            t = ev.node
            if not isinstance(t, ast.Name):
                continue
            n_truth += 1
            bad = v.types is not None and "int" in v.types
            ctx.check("C15.zero", m, t, not bad,
                      f"`{t.id}` may hold a position (host int, possibly 0) and is tested by truthiness "
                      f"({v!r}): position 0 is treated as 'absent'", site=f"{m.qual}: truthiness of `{t.id}`")

    # ---------------------------------------------------------------- positions, not values
    da = model.method(P, "ValueList", "deleteAt")
    dels = [n for n in ast.walk(da.node) if isinstance(n, ast.Delete) and isinstance(n.targets[0], ast.Subscript)
            and norm(n.targets[0].value) == "self.value"]
    pops = [n for n in ast.walk(da.node) if isinstance(n, ast.Call) and norm(n.func) == "self.value.pop" and n.args]
    byvalue = [n for n in ast.walk(da.node) if isinstance(n, ast.Call) and isinstance(n.func, ast.Attribute)
               and n.func.attr in ("remove", "removeItem", "index", "findItem")]
    ctx.check("C15.position", da, byvalue[0] if byvalue else None, (len(dels) + len(pops) == 1) and not byvalue,
              "delete_at does not delete by position (del self.value[index]): with duplicates the wrong element goes",
              expr="deleteAt by position", site="ValueList.deleteAt: del self.value[index]")
    ia = model.method(P, "ValueList", "insertAt")
    ins = [n for n in ast.walk(ia.node) if isinstance(n, ast.Call) and norm(n.func) in ("self.value.insert", "self.value.append")]
    byvalue = [n for n in ast.walk(ia.node) if isinstance(n, ast.Call) and isinstance(n.func, ast.Attribute)
               and n.func.attr in ("remove", "index", "findItem")]
    ctx.check("C15.position", ia, None, len(ins) >= 1 and not byvalue, "insert_at does not insert by position",
              expr="insertAt by position", site="ValueList.insertAt: insert(idx, value) / append at the end")
    fd = model.method(P, "FuncDeleteAt", "execute")
    ok = "return lst.deleteAt(index)" in norm(fd.node) and "index = args.getInt('index').value" in norm(fd.node)
    ctx.check("C15.position", fd, None, ok, "delete_at does not pass its index argument to deleteAt",
              expr="delete_at index", site="FuncDeleteAt.execute: lst.deleteAt(<index argument>)")

    # ---------------------------------------------------------------- a character read is a new string value
    from .C16 import shared_values
    shared_values(ctx, model, "C15.position")
    nd_ = model.method(P, "NodeDeref", "evaluate")
    rets_ = [r for r in ast.walk(nd_.node) if isinstance(r, ast.Return) and r.value is not None
             and any(isinstance(x, ast.Subscript) and norm(x.value) == "s" for x in ast.walk(r.value))]
    for r in rets_:
        ok = isinstance(r.value, ast.Call) and norm(r.value.func) == "ValueString"
        ctx.check("C15.position", nd_, r, ok,
                  f"indexing a string returns `{norm(r.value)[:50]}`, not a newly built ValueString: the character "
                  f"value may be shared with other reads (element assignment changes strings in place)",
                  site="NodeDeref.evaluate: s[i] -> ValueString(s[i]) built in the call")
    if not rets_:
        ctx.broken("NodeDeref.evaluate", "string element access not found")

    # ---------------------------------------------------------------- normalisation exactly once
    n_sites = 0
    for qual in (("NodeDeref", "evaluate"), ("NodeDerefAssign", "evaluate")):
        m = model.method(P, *qual)
        states, g = _normal_states(model, m, ctx)
        tracked = {v for stt in states.values() for v, t in stt}
        for node in g.nodes:
            a = node.ast if node.kind != "for" else None
            if a is None or node.id not in states:
                continue
            for x in ast.walk(a):
                if not (isinstance(x, ast.Subscript) and norm(x.value) in SEQS):
                    continue
                for nm in sorted({n.id for n in ast.walk(x.slice) if isinstance(n, ast.Name)} & tracked):
                    st = {tag for v, tag in states[node.id] if v == nm}
                    n_sites += 1
                    ctx.check("C15.normal", m, x, st == {"checked"},
                              f"{m.qual}: the index `{nm}` of {norm(x)} does not arrive as 'program index, "
                              f"length added exactly once if negative, then range-checked with a runtime error' "
                              f"(it arrives as {sorted(st) or ['unknown']})",
                              expr=f"normalise + range check {norm(x)}",
                              site=f"{m.qual}: {norm(x)}: i < 0 -> i + len once; then 0 <= i < len or runtime error")
    if n_sites < 4:
        ctx.broken("NodeDeref/NodeDerefAssign", f"only {n_sites} element accesses by index variable found")
    # the same across a call: the built-in hands the program's index to a list method; exactly one of the two adds
    # the length to a negative index
    for cname, callee_name in (("FuncDeleteAt", "deleteAt"), ("FuncInsertAt", "insertAt")):
        m = model.method(P, cname, "execute")
        callee = model.method(P, "ValueList", callee_name)
        cparam = callee.params[1]
        # the index parameter and the locals that are copies of it (`idx = index`)
        names = {cparam}
        for _ in range(3):
            for a in ast.walk(callee.node):
                if isinstance(a, ast.Assign) and len(a.targets) == 1 and isinstance(a.targets[0], ast.Name) \
                        and isinstance(a.value, ast.Name) and a.value.id in names:
                    names.add(a.targets[0].id)

        def _mentions_len(e):
            return any(isinstance(x, ast.Call) and isinstance(x.func, ast.Name) and x.func.id == "len"
                       for x in ast.walk(e))
        callee_adds = any(
            (isinstance(a, ast.AugAssign) and isinstance(a.op, ast.Add) and norm(a.target) in names
             and _mentions_len(a.value)) or
            (isinstance(a, ast.Assign) and isinstance(a.value, ast.BinOp) and isinstance(a.value.op, ast.Add)
             and any(isinstance(x, ast.Name) and x.id in names for x in ast.walk(a.value)) and _mentions_len(a.value)
             and any(isinstance(t, ast.Name) for t in a.targets)) for a in ast.walk(callee.node))
        states, g = _normal_states(model, m, ctx)
        n_calls = 0
        for node in g.nodes:
            a = node.ast if node.kind != "for" else None
            if a is None or node.id not in states:
                continue
            for c in ast.walk(a):
                if isinstance(c, ast.Call) and isinstance(c.func, ast.Attribute) and c.func.attr == callee_name \
                        and c.args and isinstance(c.args[0], ast.Name):
                    st = {tag for v, tag in states[node.id] if v == c.args[0].id}
                    n_calls += 1
                    ok = st == {"raw"} if callee_adds else st <= {"norm", "checked"} and bool(st)
                    ctx.check("C15.normal", m, c, ok,
                              f"{m.qual} passes an index that is {sorted(st) or ['unknown']} to ValueList.{callee_name}, "
                              f"which {'adds the length to a negative index itself' if callee_adds else 'does not normalise'}"
                              f": a negative index is {'normalised twice (out-of-range negatives wrap into range)' if callee_adds else 'never normalised'}",
                              expr=f"{cname} -> {callee_name} normalisation",
                              site=f"{m.qual}: index normalised exactly once across {callee_name}()")
        if n_calls == 0:
            ctx.broken(m.qual, f"call of {callee_name} with the index variable not found")


_HELPER_CACHE = {}


def _normal_states(model, m, ctx, is_helper=False):
    """Typestate of index variables: raw (program integer) -> neg (tested negative) -> norm (length added, or was
    non-negative) -> checked (range test passed).  Anything else is a named bad state."""
    g = CFG(m.node, implicit_exc=False)

    def assigned_name(a):
        if isinstance(a, ast.Assign) and len(a.targets) == 1 and isinstance(a.targets[0], ast.Name):
            return a.targets[0].id, a.value
        return None, None

    def transfer(node, label, state):
        a = node.ast
        st = set(state)
        if node.kind in ("stmt",):
            v, val = assigned_name(a)
            if v is not None:
                cur = {t for (x, t) in st if x == v}
                st = {(x, t) for (x, t) in st if x != v}
                txt = norm(val)
                if isinstance(val, ast.BinOp) and isinstance(val.op, ast.Add) and v in (norm(val.left), norm(val.right)):
                    for t in cur:
                        st.add((v, {"neg": "norm", "norm": "added twice", "checked": "added after the check",
                                    "raw": "added unconditionally"}.get(t, t)))
                elif ".asInt().value" in txt or txt.endswith(".value") and "getInt(" in txt:
                    st.add((v, "raw"))
                elif isinstance(val, ast.Call) and _helper_checked(model, m, val, ctx):
                    st.add((v, "checked"))
                return frozenset(st)
            if isinstance(a, ast.AugAssign) and isinstance(a.target, ast.Name):
                v = a.target.id
                cur = {t for (x, t) in st if x == v}
                st = {(x, t) for (x, t) in st if x != v}
                if isinstance(a.op, ast.Add):
                    for t in cur:
                        st.add((v, {"neg": "norm", "norm": "added twice", "checked": "added after the check",
                                    "raw": "added unconditionally"}.get(t, t)))
                return frozenset(st)
            return state
        if node.kind == "test" and label in ("true", "false"):
            facts = split_test(a, label == "true")
            for (v, t) in list(st):
                neg = (f"{v} < 0", True) in facts
                nonneg = (f"{v} < 0", False) in facts or (f"{v} >= 0", True) in facts
                upper = any(txt.startswith(f"{v} >= ") and not pol or txt.startswith(f"{v} < ") and pol and txt != f"{v} < 0"
                            for txt, pol in facts)
                if t == "raw" and neg:
                    st.discard((v, t)); st.add((v, "neg"))
                elif t == "raw" and nonneg and upper:
                    st.discard((v, t)); st.add((v, "range-checked without normalisation"))
                elif t == "raw" and nonneg:
                    st.discard((v, t)); st.add((v, "norm"))
                elif t == "norm" and nonneg and upper:
                    st.discard((v, t)); st.add((v, "checked"))
            return frozenset(st)
        return state

    states = g.dataflow(frozenset(), transfer, lambda x, y: x | y)
    # the failing side of the range test raises the language's runtime error
    for node in g.nodes:
        if node.kind != "test" or node.id not in states:
            continue
        for (v, t) in states[node.id]:
            if t != "norm":
                continue
            facts_f = split_test(node.ast, False)
            if (f"{v} < 0", False) in facts_f and any(txt.startswith(f"{v} >= ") for txt, pol in facts_f if not pol):
                tgt = [s for lbl, s in node.succ if lbl == "true"]
                body = tgt[0].ast if tgt else None
                ok = isinstance(body, ast.Raise) and body.exc is not None and "CklRuntimeError" in norm(body.exc)
                ctx.check("C15.normal", m, node.ast, ok,
                          "out-of-range index does not raise the language's runtime error",
                          site=f"{m.qual}: out of range -> CklRuntimeError")
    return states, g


def _helper_checked(model, m, call, ctx):
    """`v = helper(..)`: the helper returns an index that went raw -> norm -> checked on every returning path."""
    callee = resolve_static_call(model, m, call)
    if callee is None or callee is m:
        return False
    if callee.qual in _HELPER_CACHE:
        return _HELPER_CACHE[callee.qual]
    _HELPER_CACHE[callee.qual] = False
    states, g = _normal_states(model, callee, ctx, True)
    rets = [n for n in g.nodes if n.kind == "return" and n.id in states]
    ok = bool(rets)
    for r in rets:
        v = r.ast.value
        if not isinstance(v, ast.Name) or {t for x, t in states[r.id] if x == v.id} != {"checked"}:
            ok = False
    _HELPER_CACHE[callee.qual] = ok
    return ok
