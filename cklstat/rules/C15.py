"""C15 - Indexing, slicing and sub-sequence functions follow the sequence model.

Decided statically (interval analysis E5 relative to len(sequence)):
  C15.bounds    at every host subscript on a user sequence in the index / slice / sub-sequence evaluators the
                index is proven within [0, len) (outside it Python raises IndexError or silently counts from the
                end), every slice bound is proven non-negative (a negative bound makes Python count from the end:
                the wrap-around the property forbids), and every range-driven subscript stays inside [0, len)
  C15.zero      a position that came from the program is never tested by truthiness (`x or default`,
                `if not x`): 0 is a legitimate position
  C15.position  insert_at / delete_at change the list at an index (del lst[i] / lst.insert(i, v) / append at
                the end), never by searching for a value
  C15.normal    a negative user index is normalised by adding the length exactly once, before the range test
Not decided: that the right run is returned (value-level identities such as s[0 to k] + s[k to *] == s).
"""
import ast

from ..core import norm
from ..intervals import Bounds, le, show
from ..kinds import Engine
from .common import known

P = "C15"
EXPLANATION = __doc__
TECHNIQUE = "interval analysis relative to len(S) over per-function CFGs; kind inference for truthiness tests " \
            "on positions"
LEVEL_TEXT = (
    "Static bounds analysis of every subscript, slice and range-driven access on user sequences in the indexing "
    "evaluators and sub-sequence built-ins: proves indices inside [0, len) and slice bounds non-negative for all "
    "index values, so no IndexError and no wrap-around can occur there; additionally forbids truthiness tests on "
    "positions and value-based deletion. That the selected run is the intended one is value-level and not decided.")
LEVEL_NOTE = "Trusted: the interval domain (E5) with len(S) >= 0 as its only arithmetic fact about lengths."
ASSUMPTIONS = []
FLOORS = {"C15.bounds": 16, "C15.position": 2, "C15.normal": 4}

ANCHORS = [("NodeDeref", "evaluate"), ("NodeDerefAssign", "evaluate"), ("NodeDerefSlice", "evaluate"),
           ("FuncSublist", "execute"), ("FuncSubstr", "execute"), ("FuncFind", "execute"),
           ("FuncFindLast", "execute"), ("FuncInsertAt", "execute"), ("FuncDeleteAt", "execute"),
           ("ValueList", "insertAt"), ("ValueList", "deleteAt"), ("FuncSorted", "execute")]
SEQS = {"s", "lst", "value", "self.value", "result", "obj.value"}


def run(ctx):
    model = ctx.model
    engine = Engine(model)
    for qual in ANCHORS:
        m = model.method(P, *qual)
        b = Bounds(m.node)
        g = b.g
        for node in g.nodes:
            a = node.ast
            if a is None:
                continue
            exprs = [a] if node.kind != "for" else [a.iter]
            st = b.at(node)
            for e in exprs:
                for x in ast.walk(e):
                    if isinstance(x, ast.Subscript) and norm(x.value) in SEQS:
                        seq = norm(x.value)
                        if isinstance(x.slice, ast.Slice):
                            for part, nm in ((x.slice.lower, "lower"), (x.slice.upper, "upper")):
                                if part is None:
                                    continue
                                lo, hi = b.ev(part, st)
                                ok = lo is not None and le(("c", 0), lo) is True
                                ctx.check("C15.bounds", m, x, ok,
                                          f"{nm} bound `{norm(part)}` of the slice {norm(x)} is not proven "
                                          f"non-negative (lower bound {show(lo)}): a negative bound makes Python "
                                          f"count from the end again (wrap-around)",
                                          expr=f"{norm(x)} {nm}", site=f"{m.qual}: slice {norm(x)} {nm} bound >= 0")
                        else:
                            lo, hi = b.ev(x.slice, st)
                            ok_lo = lo is not None and le(("c", 0), lo) is True
                            ok_hi = hi is not None and le(hi, ("len", seq, -1)) is True
                            ctx.check("C15.bounds", m, x, ok_lo and ok_hi,
                                      f"index `{norm(x.slice)}` of {norm(x)} is not proven inside [0, len({seq})) "
                                      f"(derived range [{show(lo)}, {show(hi)}]): IndexError or an access counted "
                                      f"from the end", site=f"{m.qual}: {norm(x)} in [0, len({seq}))")
                    if isinstance(x, ast.Call) and isinstance(x.func, ast.Attribute) and x.func.attr == "insert" \
                            and norm(x.func.value) in SEQS and x.args:
                        lo, hi = b.ev(x.args[0], st)
                        ok = lo is not None and le(("c", 0), lo) is True
                        ctx.check("C15.bounds", m, x, ok,
                                  f"insert position `{norm(x.args[0])}` is not proven non-negative "
                                  f"(lower bound {show(lo)})", site=f"{m.qual}: {norm(x)[:50]} position >= 0")

    # ---------------------------------------------------------------- truthiness of positions
    for qual in ANCHORS[:9]:
        m = model.method(P, *qual)
        ip = engine.interp(m)
        n_truth = 0
        for ev in ip.events:
            if ev.kind != "truth":
                continue
            (v,) = ev.data
            t = ev.node
            if not isinstance(t, ast.Name):
                continue
            n_truth += 1
            bad = v.types is not None and "int" in v.types
            ctx.check("C15.zero", m, t, not bad,
                      f"`{t.id}` may hold a position (host int, possibly 0) and is tested by truthiness "
                      f"({v!r}): position 0 is treated as 'absent'", site=f"{m.qual}: truthiness of `{t.id}`")

    # ---------------------------------------------------------------- positions, not values
    da = model.method(P, "ValueList", "deleteAt")
    dels = [n for n in ast.walk(da.node) if isinstance(n, ast.Delete) and isinstance(n.targets[0], ast.Subscript)
            and norm(n.targets[0].value) == "self.value"]
    pops = [n for n in ast.walk(da.node) if isinstance(n, ast.Call) and norm(n.func) == "self.value.pop" and n.args]
    byvalue = [n for n in ast.walk(da.node) if isinstance(n, ast.Call) and isinstance(n.func, ast.Attribute)
               and n.func.attr in ("remove", "removeItem", "index", "findItem")]
    ctx.check("C15.position", da, byvalue[0] if byvalue else None, (len(dels) + len(pops) == 1) and not byvalue,
              "delete_at does not delete by position (del self.value[index]): with duplicates the wrong element goes",
              expr="deleteAt by position", site="ValueList.deleteAt: del self.value[index]")
    ia = model.method(P, "ValueList", "insertAt")
    ins = [n for n in ast.walk(ia.node) if isinstance(n, ast.Call) and norm(n.func) in ("self.value.insert", "self.value.append")]
    byvalue = [n for n in ast.walk(ia.node) if isinstance(n, ast.Call) and isinstance(n.func, ast.Attribute)
               and n.func.attr in ("remove", "index", "findItem")]
    ctx.check("C15.position", ia, None, len(ins) >= 1 and not byvalue, "insert_at does not insert by position",
              expr="insertAt by position", site="ValueList.insertAt: insert(idx, value) / append at the end")
    fd = model.method(P, "FuncDeleteAt", "execute")
    ok = "return lst.deleteAt(index)" in norm(fd.node) and "index = args.getInt('index').value" in norm(fd.node)
    ctx.check("C15.position", fd, None, ok, "delete_at does not pass its index argument to deleteAt",
              expr="delete_at index", site="FuncDeleteAt.execute: lst.deleteAt(<index argument>)")

    # ---------------------------------------------------------------- normalisation exactly once
    for qual, var, seq in ((("NodeDeref", "evaluate"), "i", None), (("NodeDerefAssign", "evaluate"), "i", None)):
        m = model.method(P, *qual)
        norms = [n for n in ast.walk(m.node) if isinstance(n, ast.If) and norm(n.test) == f"{var} < 0"
                 and len(n.body) == 1 and isinstance(n.body[0], (ast.Assign, ast.AugAssign))]
        checks = [n for n in ast.walk(m.node) if isinstance(n, ast.If) and norm(n.test).startswith(f"{var} < 0 or {var} >= len(")
                  and isinstance(n.body[0], ast.Raise)]
        ok = len(norms) == 2 and len(checks) == 2 and all(
            norm(x.body[0]) in (f"{var} = {var} + len(s)", f"{var} = {var} + len(lst)", f"{var} += len(s)", f"{var} += len(lst)")
            for x in norms)
        ctx.check("C15.normal", m, None, ok,
                  f"{m.qual}: negative indices are not normalised by adding the length once and then range-checked "
                  f"with a runtime error", expr="normalise + range check",
                  site=f"{m.qual}: i < 0 -> i + len once; then 0 <= i < len or runtime error")
        for c in checks:
            ctx.check("C15.normal", m, c, "CklRuntimeError" in norm(c.body[0].exc),
                      "out-of-range index does not raise the language's runtime error",
                      site=f"{m.qual}: out of range -> CklRuntimeError")
