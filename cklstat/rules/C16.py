"""C16 - Only documented mutators change their arguments; aliases see mutations.

Decided statically:
  C16.native  no built-in other than append / insert_at / delete_at / remove / put, and no evaluator other than
              element / member assignment, performs a mutating operation on an object that may be one of its
              arguments / operands (alias tracking through args.get, typed accessors, asX() conversions that
              return the object itself, and `.value` payloads)
  C16.escape  the container helpers (ValueList.addItems, ValueSet.addItems, ValueMap.addMap) never make a
              parameter their own payload (they rebind to a new container or copy element-wise)
  C16.fresh   the natives documented as producing new containers (add, sub, mul, sorted, sublist, zip, zip_map,
              range, split, split2, list/set/map conversions of other kinds) return a container constructed in
              the call on every path
  C16.ckl     library functions written in the language do not assign into, or call mutators on, a parameter
              (directly, through `!>`, through a local alias or a kind-preserving conversion such as set(p)
              which returns p itself when it already is a set, or through another library function that
              mutates its parameter), unless they are documented mutators (append_all)
  C16.byref   binding is by reference (shared with C03.byref)
Not decided: heap-model equivalence over operation sequences.
"""
import ast

from ..core import norm
from ..kinds import Engine
from .. import cklsrc
from .common import known

P = "C16"
EXPLANATION = __doc__
TECHNIQUE = "alias / freshness tracking in the kinds engine (effect analysis of mutation sinks) for natives and " \
            "evaluators; parameter-mutation lint with inter-function summaries on an independent .ckl front end"
LEVEL_TEXT = (
    "Static effect analysis: for every built-in and evaluator, every mutation sink (container methods, payload "
    "stores, host list/set/dict mutators) is checked against the alias set of the object it acts on; library code "
    "written in the language is analysed with an independent tokenizer for assignments into and mutator calls on "
    "parameters, with aliases through conversions and calls. Decides 'who may mutate an argument' for all "
    "argument values; heap-model equivalence over operation sequences is not executed.")
LEVEL_NOTE = ("Trusted: the kinds engine's alias rules (asX() returns self exactly when the kind already matches; "
              "slices, list()/sorted()/set(), + and | build new objects); the .ckl tokenizer.")
ASSUMPTIONS = ["`info` / `name` metadata written by def are not container contents"]
FLOORS = {"C16.native": 150, "C16.escape": 3, "C16.fresh": 10, "C16.ckl": 90}

VALUE_MUTATORS = {"addItem", "addItems", "removeItem", "deleteAt", "insertAt", "addMap"}
HOST_MUTATORS = {"append", "extend", "insert", "remove", "pop", "sort", "reverse", "clear", "add", "discard",
                 "update", "popitem", "setdefault"}
DOCUMENTED = {"FuncAppend", "FuncInsertAt", "FuncDeleteAt", "FuncRemove", "FuncPut"}
DOCUMENTED_NODES = {"NodeDerefAssign"}
FRESH_NATIVES = ["FuncAdd", "FuncSub", "FuncMul", "FuncSorted", "FuncSublist", "FuncZip", "FuncZipMap",
                 "FuncRange", "FuncSplit", "FuncSplit2"]
CONTAINERS = {"ValueList", "ValueSet", "ValueMap", "ValueObject"}
CKL_MUTATORS = {"append", "append_all", "insert_at", "delete_at", "remove", "put"}
CKL_DOCUMENTED = {"append_all"}
CKL_KIND_PRESERVING = {"set", "list", "map", "object", "identity", "if_null", "if_empty", "if_null_or_empty"}


def _arg_alias(v):
    return {a for a in v.alias if a.startswith(("args.get(", "operand:", "a.", "b.")) or ".get(" in a}


def run(ctx):
    model = ctx.model
    engine = Engine(model)
    natives(ctx, model, engine)
    target(ctx, model)
    escape(ctx, model)
    fresh(ctx, model, engine)
    ckl(ctx, model)
    from .common import ckl_returns_collection_param
    ckl_returns_collection_param(ctx, model, "C16.ckl.alias", "the result is then the caller's own container, and a later "
                                 "in-place change of either shows through the other (values produced by "
                                 "non-mutating functions are independent of their inputs)")


def natives(ctx, model, engine):
    funcs = []
    for c in model.subclasses("ValueFunc"):
        for m in c.methods.values():
            if m.name not in ("__init__", "getArgNames"):
                funcs.append((c, m))
    for c in model.module(P, "nodes").classes.values():
        if "evaluate" in c.methods:
            funcs.append((c, c.methods["evaluate"]))
    n = 0
    for c, m in sorted(funcs, key=lambda x: x[1].qual):
        ip = engine.interp(m)
        exempt = c.name in DOCUMENTED or c.name in DOCUMENTED_NODES
        sinks = []
        for ev in ip.events:
            if ev.kind == "method":
                recv, name, args = ev.data
                if not known(recv):
                    continue
                if name in VALUE_MUTATORS and recv.types & CONTAINERS:
                    sinks.append((ev.node, recv, f".{name}()"))
                elif name in HOST_MUTATORS and recv.types & {"list", "set", "dict"} and \
                        any(f.startswith("payload:") for f in recv.flags):
                    sinks.append((ev.node, recv, f"payload .{name}()"))
            elif ev.kind in ("store_subscript", "del_subscript"):
                base = ev.data[0]
                if known(base) and base.types & {"list", "dict", "set"} and any(f.startswith("payload:") for f in base.flags):
                    sinks.append((ev.node, base, "payload element store"))
            elif ev.kind == "store_attr":
                base, attr, val = ev.data
                if attr == "value" and known(base) and base.types & (CONTAINERS | {"ValueString"}):
                    sinks.append((ev.node, base, ".value rebinding"))
        bad = []
        for node, v, what in sinks:
            al = _arg_alias(v)
            if al and "fresh" not in v.flags:
                bad.append((node, v, what, al))
        n += 1
        ctx.ob("C16.native", f"{m.qual}: {len(sinks)} mutation sink(s), "
               f"{'documented mutator' if exempt else 'none on an argument alias'}", exempt or not bad,
               "; ".join(f"{what} on {sorted(al)}" for _, _, what, al in bad[:3]))
        if not exempt:
            for node, v, what, al in bad:
                ctx.fail("C16.native", m, node,
                         f"{m.qual} performs {what} on an object that may be its argument/operand {sorted(al)}: a "
                         f"non-mutating operation would change the caller's value")
    if n < 150:
        ctx.broken("C16.native", f"only {n} natives/evaluators analysed")


def target(ctx, model):
    """Element / member assignment changes exactly the container its expression evaluates to."""
    m = model.method(P, "NodeDerefAssign", "evaluate")
    e = m.params[1]
    cont = [norm(n.targets[0]) for n in ast.walk(m.node) if isinstance(n, ast.Assign)
            and norm(n.value) == f"self.expression.evaluate({e})"]
    ok = len(cont) == 1
    ctx.check("C16.target", m, None, ok, "the target container is not evaluated once from self.expression",
              expr="target container", site="NodeDerefAssign.evaluate: container = self.expression.evaluate(env)")
    if not ok:
        return
    c = cont[0]
    n_assign = sum(1 for n in ast.walk(m.node) if isinstance(n, (ast.Assign, ast.AugAssign))
                   for t in (n.targets if isinstance(n, ast.Assign) else [n.target]) if norm(t) == c)
    stores = []
    for n in ast.walk(m.node):
        if isinstance(n, (ast.Assign, ast.AugAssign, ast.Delete)):
            for t in (n.targets if not isinstance(n, ast.AugAssign) else [n.target]):
                if isinstance(t, ast.Subscript):
                    stores.append((n, norm(t.value)))
                elif isinstance(t, ast.Attribute) and t.attr == "value":
                    stores.append((n, norm(t)))
    ctx.check("C16.target", m, None, n_assign == 1 and "_proto_" not in norm(m.node),
              "the assignment target is re-bound (e.g. walked along the prototype chain) before it is written: "
              "the write lands in another object than the one addressed", expr="target not re-bound",
              site="NodeDerefAssign.evaluate: target variable is never re-bound")
    for n, base in stores:
        good = base in (f"{c}.value", "lst") or base.startswith(f"{c}.")
        if base == "lst":
            good = any(isinstance(x, ast.Assign) and norm(x.targets[0]) == "lst" and norm(x.value) == f"{c}.value"
                       for x in ast.walk(m.node))
        ctx.check("C16.target", m, n, good, f"element/member assignment stores into `{base}`, not into the "
                  f"addressed container's payload", site=f"NodeDerefAssign.evaluate: store into {base}")


def escape(ctx, model):
    for cname, mname in (("ValueList", "addItems"), ("ValueSet", "addItems"), ("ValueMap", "addMap")):
        m = model.method(P, cname, mname)
        params = set(m.params[1:])
        ok = True
        why = ""
        for n in ast.walk(m.node):
            if isinstance(n, ast.Assign) and norm(n.targets[0]) == "self.value":
                v = n.value
                if isinstance(v, ast.Name) and v.id in params:
                    ok, why = False, f"self.value = {v.id}"
                elif not isinstance(v, (ast.BinOp, ast.Call, ast.List, ast.Dict, ast.Set, ast.ListComp, ast.DictComp,
                                        ast.SetComp, ast.Subscript)):
                    ok, why = False, norm(n)
            if isinstance(n, ast.Call) and isinstance(n.func, ast.Attribute) and n.func.attr in ("extend", "update") \
                    and norm(n.func.value) == "self.value":
                pass   # in-place growth of the own payload is fine: the parameter is only read
            if isinstance(n, ast.Return) and n.value is not None and isinstance(n.value, ast.Name) and n.value.id in params:
                ok, why = False, "returns its parameter"
        ctx.check("C16.escape", m, None, ok,
                  f"{m.qual} lets its parameter become its payload ({why}): the new container would share storage "
                  f"with the caller's", expr=f"{m.qual} payload", site=f"{m.qual}: parameter is copied, not adopted")


def fresh(ctx, model, engine):
    for cname in FRESH_NATIVES + ["NodeDerefSlice"]:
        m = model.method(P, cname, "evaluate" if cname.startswith("Node") else "execute")
        ip = engine.interp(m)
        k = 0
        for ev in ip.events:
            if ev.kind != "return":
                continue
            (v,) = ev.data
            if not known(v) or not (v.types & CONTAINERS):
                continue
            k += 1
            al = _arg_alias(v)
            if cname.startswith("Node"):
                al = al | {a for a in v.alias if a}
            ok = "fresh" in v.flags and not al
            ctx.check("C16.fresh", m, ev.node, ok,
                      f"{cname} can return a container that is (or aliases) its argument {sorted(al)}: results of "
                      f"non-mutating operations must be independent of their inputs",
                      site=f"{cname}.execute: {norm(ev.node)[:60]} is a new container")
        if k == 0 and cname not in ("FuncSorted",):
            ctx.ob("C16.fresh", f"{cname}.execute: no container-typed return recognised", True)
    shared_values(ctx, model, "C16.fresh")
    fs = model.method(P, "FuncSorted", "execute")
    ok = "return ValueList().addItems(result)" in norm(fs.node) and "result = lst.value[:]" in norm(fs.node)
    ctx.check("C16.fresh", fs, None, ok, "sorted does not return a new list built from a copy", expr="sorted result",
              site="FuncSorted.execute: new list from a copy")


def shared_values(ctx, model, rule):
    """A memoised function (functools.lru_cache / cache) that builds a language value hands the SAME object to every
    caller; strings, lists, sets, maps and objects can be changed in place (element assignment), so one caller's
    change shows up in values other code - even another interpreter - got from the cache."""
    n = 0
    for f in model.all_funcs(True):
        for d in ast.walk(f.node):
            if not isinstance(d, ast.FunctionDef):
                continue
            decos = [norm(x.func if isinstance(x, ast.Call) else x) for x in d.decorator_list]
            if not any(t.split(".")[-1] in ("lru_cache", "cache", "cached_property") for t in decos):
                continue
            builds = [c for c in ast.walk(d) if isinstance(c, ast.Call) and isinstance(c.func, ast.Name)
                      and c.func.id in ("ValueString", "ValueList", "ValueSet", "ValueMap", "ValueObject")]
            n += 1
            ctx.check(rule, f, d, not builds,
                      f"{d.name} is memoised and returns a mutable language value ({norm(builds[0])[:40] if builds else ''}): "
                      f"every caller shares one object, and an in-place change (e.g. s[i] = c on a string) alters what "
                      f"all of them see", expr=f"memoised value builder {d.name}",
                      site=f"{f.file}: memoised function {d.name} builds no mutable language value")
    for m in model.modules.values():
        for d in m.tree.body:
            if isinstance(d, ast.FunctionDef):
                decos = [norm(x.func if isinstance(x, ast.Call) else x) for x in d.decorator_list]
                if any(t.split(".")[-1] in ("lru_cache", "cache") for t in decos):
                    builds = [c for c in ast.walk(d) if isinstance(c, ast.Call) and isinstance(c.func, ast.Name)
                              and c.func.id in ("ValueString", "ValueList", "ValueSet", "ValueMap", "ValueObject")]
                    n += 1
                    ctx.check(rule, m.rel, d, not builds,
                              f"{d.name} is memoised and returns a mutable language value: every caller shares one "
                              f"object, and an in-place change (e.g. s[i] = c on a string) alters what all of them see",
                              expr=f"memoised value builder {d.name}",
                              site=f"{m.rel}: memoised function {d.name} builds no mutable language value")
    ctx.ob(rule, f"{n} memoised function(s) in the package examined for shared mutable values", True)


# --------------------------------------------------------------------------------------------------
def ckl(ctx, model):
    all_funcs = {}
    per_module = {}
    for fn, (src, _) in sorted(model.ckl_modules.items()):
        try:
            toks = cklsrc.tokenize(src)
            funcs = cklsrc.functions(toks)
        except cklsrc.CklTokenError as e:
            ctx.broken(f"modules/{fn}", f"independent front end failed: {e}")
        per_module[fn] = funcs
        for f in funcs:
            all_funcs.setdefault(f.name, []).append((fn, f))
    # summaries: which parameter positions a library function mutates (fixpoint over calls)
    mutates = {"append": {0}, "insert_at": {0}, "delete_at": {0}, "remove": {0}, "put": {0}}
    changed = True
    rounds = 0
    results = {}
    while changed and rounds < 8:
        changed = False
        rounds += 1
        for fn, funcs in per_module.items():
            for f in funcs:
                found = analyse_ckl(f, mutates)
                results[(fn, f.qual)] = (f, found)
                pos = {f.params.index(p) for p, _, _ in found if p in f.params}
                if pos - mutates.get(f.name, set()):
                    mutates[f.name] = mutates.get(f.name, set()) | pos
                    changed = True
    n = 0
    for (fn, qual), (f, found) in sorted(results.items()):
        n += 1
        bad = [x for x in found if f.name not in CKL_DOCUMENTED]
        # a nested helper that mutates its own parameter is judged at its call sites (via the summaries)
        if f.parent is not None:
            bad = []
        ctx.ob("C16.ckl", f"modules/{fn}: def {qual}({', '.join(f.params)})", not bad,
               "; ".join(w for _, w, _ in bad[:3]))
        for p, what, line in bad:
            ctx.fail("C16.ckl", f"modules/{fn}:{qual}", None,
                     f"library function {qual} changes its argument `{p}`: {what}",
                     expr=f"{qual}: {what}", file=f"src/ckl/modules/{fn}", line=line)
    if n < 90:
        ctx.broken("C16.ckl", f"only {n} library functions analysed")


def analyse_ckl(f, mutates):
    """[(param, description, line)] - ways in which the function may mutate the object bound to a parameter."""
    body = cklsrc.own_body(f)
    alias = {p: p for p in f.params}          # local name -> parameter it may alias
    out = []
    i = 0
    n = len(body)

    def first_arg_alias(j):
        """Token index j is the '(' of a call: parameter aliased by its first argument, or None."""
        if j + 1 < n and body[j + 1].kind == "id" and body[j + 1].text in alias and j + 2 < n \
                and (body[j + 2].is_p(",") or body[j + 2].is_p(")")):
            return alias[body[j + 1].text]
        if j + 3 < n and body[j + 1].is_p("...") and body[j + 2].kind == "id":
            return None
        return None

    while i < n:
        t = body[i]
        # def x = <expr>  : (re)binds a local
        if t.is_id("def") and i + 2 < n and body[i + 1].kind == "id" and body[i + 2].is_p("="):
            name = body[i + 1].text
            # what does the initialiser alias?
            j = i + 3
            src = None
            if j < n and body[j].kind == "id" and body[j].text in alias and (j + 1 >= n or body[j + 1].is_p(";")):
                src = alias[body[j].text]
            elif j + 1 < n and body[j].kind == "id" and body[j].text in CKL_KIND_PRESERVING and body[j + 1].is_p("("):
                a = first_arg_alias(j + 1)
                end = cklsrc._skip_group(body, j + 1)
                if a is not None and (end >= n or body[end].is_p(";")):
                    src = a
            if src is not None:
                alias[name] = src
            else:
                alias.pop(name, None)
            i += 3
            continue
        if t.kind == "id" and t.text in alias:
            p = alias[t.text]
            prev = body[i - 1] if i else None
            stmt_start = prev is None or prev.is_p(";") or (prev.kind == "id" and prev.text in ("do", "then", "else"))
            # element / member assignment
            if stmt_start and i + 1 < n and body[i + 1].is_p("["):
                end = cklsrc._skip_group(body, i + 1)
                if end < n and body[end].kind == "p" and body[end].text in ("=", "+=", "-=", "*=", "/=", "%="):
                    out.append((p, f"element assignment {t.text}[..] {body[end].text}", t.line))
            if stmt_start and i + 3 < n and body[i + 1].is_p("->") and body[i + 2].kind == "id" \
                    and body[i + 3].kind == "p" and body[i + 3].text in ("=", "+=", "-=", "*=", "/=", "%="):
                out.append((p, f"member assignment {t.text}->{body[i + 2].text}", t.line))
            # p !> mutator(...)   (piped value is the first argument)
            if i + 3 < n and body[i + 1].is_p("!>") and body[i + 2].kind == "id" and body[i + 3].is_p("("):
                callee = body[i + 2].text
                if 0 in mutates.get(callee, ()):
                    out.append((p, f"{t.text} !> {callee}(..)", t.line))
            # mutator(p, ...)  and  mutator(x, p) for summaries mutating other positions
        if t.kind == "id" and i + 1 < n and body[i + 1].is_p("(") and t.text in mutates and \
                not (i and body[i - 1].is_p("!>")) and not (i and body[i - 1].is_id("def")):
            end = cklsrc._skip_group(body, i + 1)
            args = _split_args(body[i + 2:end - 1])
            for pos in mutates[t.text]:
                if pos < len(args) and len(args[pos]) == 1 and args[pos][0].kind == "id" and args[pos][0].text in alias:
                    out.append((alias[args[pos][0].text], f"{t.text}({args[pos][0].text}, ..)", t.line))
        if t.kind == "id" and i + 1 < n and body[i + 1].is_p("(") and i and body[i - 1].is_p("!>") and t.text in mutates:
            # x !> f(a, b): piped value is position 0, explicit arguments shift by one
            end = cklsrc._skip_group(body, i + 1)
            args = _split_args(body[i + 2:end - 1])
            for pos in mutates[t.text]:
                if pos >= 1 and pos - 1 < len(args) and len(args[pos - 1]) == 1 and args[pos - 1][0].kind == "id" \
                        and args[pos - 1][0].text in alias:
                    out.append((alias[args[pos - 1][0].text], f".. !> {t.text}(.., {args[pos - 1][0].text})", t.line))
        i += 1
    # de-duplicate
    seen, res = set(), []
    for x in out:
        if (x[0], x[1]) not in seen:
            seen.add((x[0], x[1]))
            res.append(x)
    return res


def _split_args(toks):
    args, cur, depth = [], [], 0
    for t in toks:
        if t.kind == "p" and t.text in cklsrc.OPEN or t.is_id("do"):
            depth += 1
        elif t.kind == "p" and t.text in cklsrc.CLOSE or t.is_id("end"):
            depth -= 1
        if t.is_p(",") and depth == 0:
            args.append(cur)
            cur = []
        else:
            cur.append(t)
    if cur:
        args.append(cur)
    return args
