"""C18 - String functions satisfy the algebra of strings (narrow static clauses).

Decided statically:
  C18.render    string searching / matching / comparing never runs on the quoted, escaped rendering of a value
                (text produced by str()/repr()/f-strings of a language value must not reach find / in /
                startswith / endswith / split / == inside any built-in or evaluator)
  C18.argnames  every literal argument name a built-in uses in its execute method (args.get("x"),
                args.getString("x"), args.isNull("x"), args.hasArg("x"), ...) is one of the names its
                getArgNames() declares - a misspelt name makes a guard silently vacuous
  C18.escape    escape_pattern escapes every character the host regex engine treats as special, so splitting on a
                literal separator is expressible
  C18.ckl.first library loops written in the language do not use "accumulator is empty" as their first-iteration
                test (join / unlines style functions)
  C18.interp    the interpolation function resumes scanning after the text it actually inserted (the resume
                offset is computed from the same string that was spliced in)
Not decided: the algebra itself (split/join inverse, replace, idempotence, padding/rounding) - value-level.
"""
import ast
import re

from ..core import norm
from ..kinds import Engine
from .common import known

P = "C18"
EXPLANATION = __doc__
TECHNIQUE = "taint-style flag (rendered text) in the kinds engine reaching search sinks; declared-vs-used " \
            "argument name table agreement; regex-special-character coverage taken from the host re module"
LEVEL_TEXT = (
    "Static analysis of four structural necessary conditions of the string laws: raw-payload searching, agreement "
    "between declared and used argument names in all built-ins, completeness of regex escaping (against the "
    "running interpreter's own re module) and offset/text agreement in the interpolation loop. The algebraic "
    "laws over all strings are value-level and not decided.")
LEVEL_NOTE = "Trusted: the kinds engine's `rendered` flag (str()/repr()/format/f-string of a value); re._special_chars_map."
ASSUMPTIONS = []
FLOORS = {"C18.search": 2, "C18.argnames": 270, "C18.render": 45, "C18.escape": 1, "C18.interp": 2}

SEARCH_METHODS = {"find", "rfind", "index", "rindex", "count", "startswith", "endswith", "split", "rsplit",
                  "replace", "partition", "strip"}
ARG_METHODS = {"get", "isNull", "hasArg", "getString", "getBoolean", "getInt", "getDecimal", "getNumerical",
               "getList", "getMap", "getInput", "getOutput", "getFunc", "getDate", "getAsBoolean", "getAsNode",
               "getAsDate", "getAsString", "getAsPattern", "getAsList", "getAsSet", "getAsObject", "getAsMap",
               "getAsInt", "getAsDecimal"}


def string_search(ctx, model):
    """find / find_last on a string: on every path of the string case the answer is the host search itself
    (`obj.value.find(part, start)` / `.rfind(..)`); the host search already says -1 when there is no occurrence, and it
    finds the empty text at every position up to and including the length, which is what `contains`, `starts_with`
    and `ends_with` say.  A return of a constant before it (a 'start beyond the end' short cut) breaks that agreement
    for the empty part."""
    from ..partial import prune
    for cname, meth in (("FuncFind", "find"), ("FuncFindLast", "rfind")):
        m = model.method(P, cname, "execute")
        tests = {norm(n.test) for n in ast.walk(m.node) if isinstance(n, ast.If) and norm(n.test).endswith(".isString()")}
        if len(tests) != 1:
            ctx.broken(m.qual, "string case (`<obj>.isString()`) not found")
        t = tests.pop()
        stmts, leaves = prune(m.node.body, {t: True, t.replace("isString", "isList"): False,
                                            "args.isNull('obj')": False, "args.isNull(\"obj\")": False})
        rets = [r for st in stmts for r in ast.walk(st) if isinstance(r, ast.Return) and r.value is not None]
        if not rets or not leaves:
            ctx.broken(m.qual, "the string case does not end in returns")
        bad = [r for r in rets if not any(isinstance(x, ast.Call) and isinstance(x.func, ast.Attribute)
                                          and x.func.attr == meth for x in ast.walk(r.value))]
        ctx.check("C18.search", m, bad[0] if bad else None, not bad,
                  f"{cname} answers `{norm(bad[0].value) if bad else ''}` for a string without asking the host "
                  f"search ({meth}): for the empty part at the end of the text (find('', ''), start == length) the "
                  f"answer then disagrees with contains / starts_with / ends_with",
                  expr=f"{cname} string case", site=f"{cname}.execute: every string answer is the host {meth}()")


def run(ctx):
    model = ctx.model
    string_search(ctx, model)
    engine = Engine(model)
    # ---------------------------------------------------------------- argnames
    for c in sorted(model.subclasses("ValueFunc"), key=lambda c: c.name):
        gan = c.methods.get("getArgNames")
        ex = c.methods.get("execute")
        if gan is None or ex is None:
            continue
        r = gan.node.body[-1]
        if not (isinstance(r, ast.Return) and isinstance(r.value, ast.List)
                and all(isinstance(x, ast.Constant) for x in r.value.elts)):
            if c.name == "FuncLambda":
                continue
            ctx.broken(f"{c.name}.getArgNames", "does not return a literal list of names")
        declared = {x.value for x in r.value.elts}
        declared |= {d[:-3] for d in declared if d.endswith("...")}
        argvar = ex.params[1] if len(ex.params) > 1 else "args"
        for m in c.methods.values():
            if m.name in ("__init__", "getArgNames"):
                continue
            for n in ast.walk(m.node):
                if isinstance(n, ast.Call) and isinstance(n.func, ast.Attribute) and n.func.attr in ARG_METHODS \
                        and norm(n.func.value) == argvar and n.args and isinstance(n.args[0], ast.Constant) \
                        and isinstance(n.args[0].value, str):
                    name = n.args[0].value
                    ctx.check("C18.argnames", m, n, name in declared,
                              f"{c.name} reads argument {name!r} but declares {sorted(declared)}: the access can "
                              f"never see a passed value (a NULL guard on it is vacuous, a get raises)",
                              site=f"{m.qual}: {norm(n)[:50]}")

    # ---------------------------------------------------------------- render
    funcs = []
    for c in model.subclasses("ValueFunc"):
        funcs += [m for m in c.methods.values() if m.name not in ("__init__", "getArgNames")]
    for c in model.module(P, "nodes").classes.values():
        if "evaluate" in c.methods:
            funcs.append(c.methods["evaluate"])
    n_sites = 0
    for m in sorted(funcs, key=lambda m: m.qual):
        ip = engine.interp(m)
        for ev in ip.events:
            if ev.kind == "method":
                recv, name, args = ev.data
                if name not in SEARCH_METHODS:
                    continue
                if not (known(recv) and recv.types <= {"str"}):
                    continue
                n_sites += 1
                bad = "rendered" in recv.flags or any(known(a) and "rendered" in a.flags for a in args)
                ctx.check("C18.render", m, ev.node, not bad,
                          f"{m.qual} applies .{name}() to the rendered (quoted / escaped) text of a value: the "
                          f"answer depends on quote and escape characters that are not part of the string",
                          site=f"{m.qual}: {norm(ev.node)[:70]}")
            elif ev.kind == "compare":
                l, rs, ops = ev.data
                if not any(o in ("In", "NotIn", "Eq", "NotEq") for o in ops):
                    continue
                vals = [l] + rs
                if not any(known(v) and v.types <= {"str"} for v in vals):
                    continue
                n_sites += 1
                bad = any(known(v) and v.types <= {"str"} and "rendered" in v.flags for v in vals)
                ctx.check("C18.render", m, ev.node, not bad,
                          f"{m.qual} compares / searches the rendered text of a value", site=f"{m.qual}: {norm(ev.node)[:70]}")
    if n_sites < 30:
        ctx.broken("C18.render", f"only {n_sites} string search/compare sites typed")

    ckl_first_element(ctx, model)

    # ---------------------------------------------------------------- escape_pattern
    ep = model.method(P, "FuncEscapePattern", "execute")
    ret = ep.node.body[-1]
    esc_names = {norm(n.targets[0]) for n in ast.walk(ep.node) if isinstance(n, ast.Assign)
                 and isinstance(n.value, ast.Call) and norm(n.value.func) == "re.escape"}
    ok = isinstance(ret, ast.Return) and isinstance(ret.value, ast.Call) and norm(ret.value.func) == "ValueString" \
        and len(ret.value.args) == 1 and (
            (isinstance(ret.value.args[0], ast.Call) and norm(ret.value.args[0].func) == "re.escape")
            or norm(ret.value.args[0]) in esc_names)
    if not ok:
        # a replace chain must cover every special character of the host regex engine
        escaped = set()
        for n in ast.walk(ep.node):
            if isinstance(n, ast.Call) and isinstance(n.func, ast.Attribute) and n.func.attr == "replace" \
                    and len(n.args) == 2 and all(isinstance(a, ast.Constant) for a in n.args) \
                    and n.args[1].value == "\\" + n.args[0].value:
                escaped.add(n.args[0].value)
        special = set("\\.^$*+?{}[]|()")
        ok = special <= escaped
        missing = sorted(special - escaped)
    ctx.check("C18.escape", ep, None, ok,
              "escape_pattern does not escape every regex metacharacter"
              + (f" (missing {missing})" if not ok else ""), expr="escape_pattern",
              site="FuncEscapePattern.execute: all regex metacharacters escaped (re.escape)")

    # ---------------------------------------------------------------- interpolation
    fs = model.method(P, "FuncS", "execute")
    splice = [n for n in ast.walk(fs.node) if isinstance(n, ast.Assign) and norm(n.targets[0]) == "s"
              and isinstance(n.value, ast.BinOp) and "idx1" in norm(n.value) and "idx2" in norm(n.value)]
    resume = [n for n in ast.walk(fs.node) if isinstance(n, ast.Assign) and norm(n.targets[0]) == "start"
              and "idx1" in norm(n.value)]
    ok = len(splice) == 1 and len(resume) == 1
    ctx.check("C18.interp", fs, None, ok, "interpolation splice / resume statements not found", expr="splice+resume",
              site="FuncS.execute: one splice, one resume offset")
    if ok:
        parts = []

        def flat(e):
            if isinstance(e, ast.BinOp) and isinstance(e.op, ast.Add):
                flat(e.left)
                flat(e.right)
            else:
                parts.append(e)

        flat(splice[0].value)
        mid = [p for p in parts if isinstance(p, ast.Name)]
        inserted = mid[0].id if len(mid) == 1 else None
        lens = [norm(c.args[0]) for c in ast.walk(resume[0].value) if isinstance(c, ast.Call) and norm(c.func) == "len"]
        ok2 = inserted is not None and lens == [inserted]
        ctx.check("C18.interp", fs, resume[0], ok2,
                  f"the scan resumes at idx1 + len({lens}) but the text spliced in is `{inserted}`: with padding the "
                  f"scan re-enters the inserted text and interpolates it again", site="FuncS.execute: resume offset uses the inserted text")
        ok3 = norm(parts[0]) == "s[0:idx1]" and norm(parts[-1]) == "s[idx2 + 1:]"
        ctx.check("C18.interp", fs, splice[0], ok3, "text outside the placeholder is not preserved",
                  site="FuncS.execute: s[0:idx1] + value + s[idx2+1:]")
    placeholder_state(ctx, model)
    ckl_text_building(ctx, model)


def placeholder_state(ctx, model):
    """Format state of one placeholder must not leak into the next: inside the placeholder loop of FuncS.execute, a
    variable that some branch of the loop body sets (the parsed `#spec` parts) and that the loop body reads must
    have been assigned earlier in the SAME iteration on every path to that read."""
    from ..cfg import CFG
    from ..pathcount import must_pass
    from .C05 import _as_func
    fs = model.method(P, "FuncS", "execute")
    loops = [n for n in fs.node.body if isinstance(n, ast.While)]
    if len(loops) != 1:
        ctx.broken("FuncS.execute", "placeholder loop not found")
    lp = loops[0]
    cond_assigned = set()
    for n in ast.walk(lp):
        if isinstance(n, (ast.If, ast.Try, ast.For, ast.While)) and n is not lp:
            for a in ast.walk(n):
                if isinstance(a, (ast.Assign, ast.AugAssign)):
                    for t in (a.targets if isinstance(a, ast.Assign) else [a.target]):
                        if isinstance(t, ast.Name):
                            cond_assigned.add(t.id)
    top_assigned_at = {}
    for i, st in enumerate(lp.body):
        if isinstance(st, ast.Assign):
            for t in st.targets:
                if isinstance(t, ast.Name):
                    top_assigned_at.setdefault(t.id, i)
    g = CFG(_as_func(lp.body), implicit_exc=False)

    def assigned(node, label):
        a = node.ast
        if a is None or node.kind == "for":
            return None
        out = set()
        if isinstance(a, ast.Assign):
            for t in a.targets:
                if isinstance(t, ast.Name):
                    out.add(t.id)
        return out or None

    defs = must_pass(g, assigned)
    n = 0
    reported = set()
    for node in g.nodes:
        a = node.ast
        if a is None or node.id not in defs:
            continue
        a = a.iter if node.kind == "for" else a
        reads = {x.id for x in ast.walk(a) if isinstance(x, ast.Name) and isinstance(x.ctx, ast.Load)}
        if isinstance(a, ast.AugAssign) and isinstance(a.target, ast.Name):
            reads.add(a.target.id)
        for v in sorted(reads & cond_assigned):
            n += 1
            ok = v in defs[node.id]
            if not ok and v in reported:
                continue
            if not ok:
                reported.add(v)
            ctx.check("C18.interp", fs, a if not isinstance(a, ast.expr) else a, ok,
                      f"`{v}` is set by a branch of the placeholder loop and read here without having been (re)set "
                      f"earlier in the same iteration: the format of one placeholder leaks into the next",
                      expr=f"placeholder state {v}", site=f"FuncS.execute: `{v}` reset for every placeholder before use")
    if n < 5:
        ctx.broken("FuncS.execute", f"only {n} reads of per-placeholder state found")


def ckl_text_building(ctx, model):
    """Library code: program text (a template for s(), an argument of eval / parse) is never assembled by putting a
    VALUE between hand-written quote characters (`"'" + x + "'"`): a quote or backslash inside the value ends the
    literal early, and braces in it are interpolated again."""
    from .. import cklsrc
    n = 0
    for fn, (src, _) in sorted(model.ckl_modules.items()):
        try:
            toks = cklsrc.tokenize(src)
            funcs = cklsrc.functions(toks)
        except cklsrc.CklTokenError as e:
            ctx.broken(f"modules/{fn}", str(e))
        for f in funcs:
            body = cklsrc.own_body(f)
            evaluates = any(t.kind == "id" and t.text in ("s", "eval", "parse", "sprintf") and i + 1 < len(body)
                            and body[i + 1].is_p("(") for i, t in enumerate(body))
            if not evaluates:
                continue
            n += 1
            bad = None
            for i in range(len(body) - 4):
                if body[i].kind == "str" and body[i].text in ("'", '"', "\\'", '\\"') and body[i + 1].is_p("+") \
                        and body[i + 2].kind == "id":
                    j = i + 3
                    if j < len(body) and body[j].is_p("["):
                        j = cklsrc._skip_group(body, j)
                    if j + 1 < len(body) and body[j].is_p("+") and body[j + 1].kind == "str" \
                            and body[j + 1].text == body[i].text:
                        bad = body[i]
            ctx.ob("C18.interp", f"modules/{fn}: {f.qual}: builds no quoted program text from values", bad is None)
            if bad is not None:
                ctx.fail("C18.interp", f"modules/{fn}:{f.qual}", None,
                         f"{f.qual} puts a value between hand-written quotes to build text that is evaluated later: a "
                         f"quote or backslash in the value breaks the literal, `{{n}}` in it is interpolated again",
                         expr=f"{f.qual}: quoted value in evaluated text", file=f"src/ckl/modules/{fn}", line=bad.line)
    if n < 1:
        ctx.broken("modules/*.ckl", "no library function that evaluates text found (sprintf)")


def ckl_first_element(ctx, model):
    """Library code: inside a loop, an accumulator that is built by concatenation in that loop must not be tested
    for emptiness to recognise the first iteration (an empty first element looks like 'nothing yet')."""
    from .. import cklsrc
    n = 0
    for fn, (src, _) in sorted(model.ckl_modules.items()):
        try:
            toks = cklsrc.tokenize(src)
            funcs = cklsrc.functions(toks)
        except cklsrc.CklTokenError as e:
            ctx.broken(f"modules/{fn}", str(e))
        for f in funcs:
            body = cklsrc.own_body(f)
            i = 0
            while i < len(body):
                if body[i].is_id("for"):
                    j = i
                    while j < len(body) and not body[j].is_id("do"):
                        j += 1
                    if j >= len(body):
                        break
                    end = cklsrc._skip_block(body, j)
                    loop = body[j + 1:end - 1]
                    assigned = {loop[k].text for k in range(len(loop) - 1)
                                if loop[k].kind == "id" and loop[k + 1].kind == "p" and loop[k + 1].text in ("=", "+=")
                                and (k == 0 or not loop[k - 1].is_id("def"))}
                    bad = None
                    for k in range(len(loop) - 2):
                        a, op, b = loop[k], loop[k + 1], loop[k + 2]
                        if op.kind == "p" and op.text in ("==", "!=", "<>"):
                            if a.kind == "id" and a.text in assigned and b.kind == "str" and b.text == "":
                                bad = a
                            if b.kind == "id" and b.text in assigned and a.kind == "str" and a.text == "":
                                bad = b
                        if a.is_id("is_empty") and op.is_p("(") and b.kind == "id" and b.text in assigned:
                            bad = b
                    n += 1
                    ctx.ob("C18.ckl.first", f"modules/{fn}: {f.qual}: loop at line {body[i].line}", bad is None)
                    if bad is not None:
                        ctx.fail("C18.ckl.first", f"modules/{fn}:{f.qual}", None,
                                 f"the loop in {f.qual} tests its accumulator `{bad.text}` for emptiness to recognise "
                                 f"the first iteration: leading empty elements are indistinguishable from 'nothing "
                                 f"accumulated yet' (e.g. separators dropped after leading empty strings)",
                                 expr=f"{f.qual}: {bad.text} == ''", file=f"src/ckl/modules/{fn}", line=bad.line)
                    i = j + 1
                    continue
                i += 1
    if n < 20:
        ctx.broken("C18.ckl.first", f"only {n} library loops found")
