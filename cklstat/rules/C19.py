"""C19 - Collection and numeric library functions satisfy their defining laws (narrow static clauses).

Decided statically:
  C19.pow     pow on two ints with a non-negative exponent is computed with exact integer operators (no
              math.pow / float on that path)
  C19.width   the 32-bit natives reduce every result that can exceed 32 bits (left shift, both rotates,
              complement) to 32 bits before returning it; the shift natives use the shift count unreduced (a shift
              by 32..40 must give 0 / the sign-free remainder, not wrap around like a rotate)
  C19.median  the median family indexes only a list derived from sorted(..), never the raw parameter (order
              invariance); checked on library code with the independent .ckl front end
  C19.alias   set-algebra library functions do not alias an operand as their result (shared with C16.ckl)
  C19.accum   library code never grows a list accumulator with `R = e + R` / `R = R + e` (e the loop element): `+`
              splices list / set elements and propagates NULL, so reverse / flatten / filter ... would not keep
              such elements as elements
  C19.names   every name a bundled library function uses is provided by its own module (definitions, parameters,
              loop variables, imports, bind_native) or by the root environment of the DEFAULT configuration
              (Sys and Core unqualified, not the legacy imports): otherwise the function - union, prod, ... -
              fails with 'Symbol not defined' instead of computing its result
Not decided: everything else in the statement (set algebra results, unique, flatten, zip, chunks, reduce, gcd,
lcm, mean ...) - textbook definitions over runtime values.
"""
import ast

from ..cfg import CFG
from ..core import norm
from ..facts import must_facts
from .. import cklsrc

P = "C19"
EXPLANATION = __doc__
TECHNIQUE = "guard-dominance facts on the pow native, structural width discipline on the bit natives, " \
            "order-taint lint on the .ckl median family"
LEVEL_TEXT = (
    "Static analysis of three narrow, structural necessary conditions: exact integer pow, 32-bit result width and "
    "unreduced shift counts in the bitwise natives, and order-invariance of the median family by indexing only "
    "sorted copies (plus no operand aliasing in the set algebra). The defining laws of the remaining collection "
    "functions are value-level and are not decided.")
LEVEL_NOTE = "Trusted: Python int ** int with non-negative exponent is exact; the .ckl tokenizer."
ASSUMPTIONS = []
FLOORS = {"C19.pow": 2, "C19.width": 8, "C19.median": 3, "C19.names": 12}

MASKS = {"0xFFFFFFFF", "4294967295", "2 ** 32 - 1", "(1 << 32) - 1"}


def names(ctx, model):
    from .. import cklnames
    try:
        res, root = cklnames.unresolved(model.ckl_modules)
    except cklsrc.CklTokenError as e:
        ctx.broken("modules/*.ckl", str(e))
    if len(root) < 60:
        ctx.broken("modules/base.ckl", f"only {len(root)} root names derived from base.ckl / sys.ckl / core.ckl")
    for fn, bad in sorted(res.items()):
        ctx.ob("C19.names", f"modules/{fn}: every name used is bound in the module or in the default root "
               f"environment", not bad, ", ".join(n for n, _ in bad))
        for nm, line in bad:
            ctx.fail("C19.names", f"modules/{fn}", None,
                     f"`{nm}` is used in modules/{fn} but neither the module nor the default (non-legacy) root "
                     f"environment defines it: the library function fails with \"Symbol '{nm}' not defined\" when "
                     f"it is called", expr=f"{fn}: {nm}", file=f"src/ckl/modules/{fn}", line=line)


def bound_names(ctx, model, rule="C19.names", prop="C19", only=None):
    """A bundled module that exports a native under a second name may invent a new name for it (bit_and_32), but a
    name that IS a native's own name must be bound to that native: `bind_native("find", "find_last")` would hand out
    the first-occurrence search under the name of the last-occurrence one."""
    from .common import native_registry
    reg = native_registry(model, prop)
    if len(reg) < 100:
        ctx.broken("bind_native", f"only {len(reg)} native registrations could be extracted")
    n = 0
    for fn, (src, _) in sorted(model.ckl_modules.items()):
        try:
            toks = cklsrc.tokenize(src)
        except cklsrc.CklTokenError as e:
            ctx.broken(f"modules/{fn}", str(e))
        lit, _nonlit = cklsrc.bind_native_calls(toks)
        for native, alias, line in lit:
            n += 1
            if alias is None or alias == native or (only and alias not in only and native not in only):
                continue
            ok = alias not in reg or reg.get(alias) == reg.get(native)
            ctx.ob(rule, f"modules/{fn}: bind_native({native!r}, {alias!r}) does not take another native's name",
                   ok)
            if not ok:
                ctx.fail(rule, f"modules/{fn}", None,
                         f"bind_native({native!r}, {alias!r}) exports the native `{native}` ({reg.get(native)}) under "
                         f"the name of a different native `{alias}` ({reg[alias]}): callers of {fn[:-4].capitalize()}->"
                         f"{alias} get the other function", expr=f"{fn}: {native} as {alias}",
                         file=f"src/ckl/modules/{fn}", line=line)
    if n < 100:
        ctx.broken("modules/*.ckl", f"only {n} bind_native calls found in the bundled modules")


def list_accumulators(ctx, model):
    """Library code: a LIST accumulator (`def R = []`) grown inside a loop with `R = e + R` / `R = R + e`, e being the
    loop element.  `+` is overloaded by the kinds of BOTH operands: an element that is itself a list / set is spliced
    in, a NULL element makes the whole result NULL - reverse, flatten, filter ... must use append / insert_at."""
    n = 0
    for fn, (src, _) in sorted(model.ckl_modules.items()):
        try:
            toks = cklsrc.tokenize(src)
            funcs = cklsrc.functions(toks)
        except cklsrc.CklTokenError as e:
            ctx.broken(f"modules/{fn}", str(e))
        for f in funcs:
            body = cklsrc.own_body(f)
            init = {}        # accumulator -> (index of its latest `def R = <..>`, is list literal)
            loopvars = []
            for i in range(len(body) - 3):
                t = body[i]
                if t.is_id("def") and body[i + 1].kind == "id" and body[i + 2].is_p("="):
                    init[body[i + 1].text] = body[i + 3].is_p("[") and i + 4 < len(body) and body[i + 4].is_p("]")
                if t.is_id("for") and body[i + 1].kind == "id":
                    loopvars.append(body[i + 1].text)
                if t.kind == "id" and body[i + 1].is_p("=") and i + 4 < len(body) and body[i + 3].is_p("+") \
                        and not body[i - 1].is_id("def"):
                    r, a, b = t.text, body[i + 2].text, body[i + 4].text
                    if init.get(r) and ((a == r and b in loopvars) or (b == r and a in loopvars)) \
                            and (i + 5 >= len(body) or body[i + 5].text in (";", "end")):
                        e = b if a == r else a
                        n += 1
                        ctx.fail("C19.accum", f"modules/{fn}:{f.qual}", None,
                                 f"{f.qual} grows its list `{r}` with `{r} = {a} + {b}`: for an element `{e}` that is a "
                                 f"list or set `+` concatenates / unites instead of adding one element, and a NULL "
                                 f"element makes the result NULL", expr=f"{f.qual}: {r} = {a} + {b}",
                                 file=f"src/ckl/modules/{fn}", line=t.line)
            for r, is_list in init.items():
                if is_list:
                    ctx.ob("C19.accum", f"modules/{fn}: {f.qual}: list accumulator `{r}` is grown with append / insert_at",
                           True)


def run(ctx):
    model = ctx.model
    names(ctx, model)
    bound_names(ctx, model)
    from .common import ckl_returns_collection_param
    ckl_returns_collection_param(ctx, model, "C19.fresh", "the result then has the kind and the duplicates of the "
                                 "argument instead of being the collection the function defines (diff([1, 1, 2], []) "
                                 "would be the list [1, 1, 2], not the set <<1, 2>>)")
    list_accumulators(ctx, model)
    # ---------------------------------------------------------------- pow
    fp = model.method(P, "FuncPow", "execute")
    g = CFG(fp.node, implicit_exc=False)
    facts = must_facts(g)
    n_int = 0
    for node in g.nodes:
        if node.kind != "return" or node.ast.value is None:
            continue
        have = facts.get(node.id, frozenset())
        both_int = any(t for t, p in have if p and "isInt()" in t and "'x'" in t) and \
            any(t for t, p in have if p and "isInt()" in t and "'y'" in t)
        if not both_int:
            continue
        nonneg = ("y >= 0", True) in have or ("y < 0", False) in have
        v = node.ast.value
        if nonneg:
            n_int += 1
            ok = norm(v) in ("ValueInt(x ** y)", "ValueInt(pow(x, y))")
            floaty = any(isinstance(c, ast.Call) and norm(c.func).startswith("math.") for c in ast.walk(v))
            ctx.check("C19.pow", fp, v, ok and not floaty,
                      "pow of two ints with non-negative exponent goes through floating point: results beyond 2^53 "
                      "are not exact", site="FuncPow.execute: int ** non-negative int is exact")
    ctx.check("C19.pow", fp, None, n_int >= 1,
              "FuncPow has no branch for two ints with a non-negative exponent returning an exact integer power",
              expr="exact int branch", site="FuncPow.execute: exact branch exists")

    # ---------------------------------------------------------------- width
    def masked(e):
        return isinstance(e, ast.BinOp) and isinstance(e.op, ast.BitAnd) and (norm(e.right) in MASKS or norm(e.left) in MASKS)

    for cname, needs_mask in (("FuncBitShiftLeft", True), ("FuncBitRotateLeft", True), ("FuncBitRotateRight", True),
                              ("FuncBitShiftRight", False), ("FuncBitAnd", False), ("FuncBitOr", False),
                              ("FuncBitXor", False)):
        m = model.method(P, cname, "execute")
        rets = [r for r in ast.walk(m.node) if isinstance(r, ast.Return) and r.value is not None]
        ret = rets[-1] if rets else m.node.body[-1]
        ok = len(rets) == 1 and isinstance(ret.value, ast.Call) and norm(ret.value.func) == "ValueInt"
        arg = ret.value.args[0] if ok and ret.value.args else None
        if needs_mask:
            ok = ok and arg is not None and masked(arg)
        ctx.check("C19.width", m, ret, ok,
                  f"{cname} returns a value that is not reduced to 32 bits: "
                  f"{'left shifts / rotates can exceed 2^32' if needs_mask else 'result is not a ValueInt'}",
                  expr=f"{cname} result", site=f"{cname}.execute: result {'masked to 32 bits' if needs_mask else 'is an int'}")
    for cname in ("FuncBitShiftLeft", "FuncBitShiftRight"):
        m = model.method(P, cname, "execute")
        n_defs = [n for n in ast.walk(m.node) if isinstance(n, (ast.Assign, ast.AugAssign))
                  and norm(n.targets[0] if isinstance(n, ast.Assign) else n.target) == "n"]
        ok = len(n_defs) == 1 and isinstance(n_defs[0], ast.Assign) and norm(n_defs[0].value) == "args.getInt('n').value"
        shifts = [n for n in ast.walk(m.node) if isinstance(n, ast.BinOp) and isinstance(n.op, (ast.LShift, ast.RShift))]
        ok = ok and len(shifts) == 1 and norm(shifts[0].right) == "n" and norm(shifts[0].left) == "a"
        ctx.check("C19.width", m, None, ok,
                  f"{cname} does not shift by the count it was given (e.g. reduces it modulo 32): a shift by 32 or "
                  f"more must clear the word, not wrap around", expr=f"{cname} count",
                  site=f"{cname}.execute: shifts `a` by the unreduced count `n`")
    bn = model.method(P, "FuncBitNot", "execute")
    t = norm(bn.node).replace("\n", " ")
    ok = "a = ~a" in t and "if a < 0: a += 2 ** 32" in t
    ctx.check("C19.width", bn, None, ok, "bit_not does not map the complement back into 0..2^32-1",
              expr="bit_not", site="FuncBitNot.execute: complement taken modulo 2^32")

    # ---------------------------------------------------------------- median family (.ckl)
    src = model.ckl_modules.get("stat.ckl")
    if src is None:
        ctx.broken("modules/stat.ckl", "missing")
    try:
        toks = cklsrc.tokenize(src[0])
        funcs = cklsrc.functions(toks)
    except cklsrc.CklTokenError as e:
        ctx.broken("modules/stat.ckl", str(e))
    meds = [f for f in funcs if f.name.startswith("median")]
    if len(meds) < 3:
        ctx.broken("modules/stat.ckl", f"only {len(meds)} median functions")
    # `sorted` itself and module helpers that return sorted(..) of what they are given
    sorting = {"sorted"}
    for h in funcs:
        hb = cklsrc.own_body(h)
        if h.parent is None and len(hb) >= 2 and hb[0].is_id("sorted") and hb[1].is_p("("):
            sorting.add(h.name)
    for f in meds:
        body = cklsrc.own_body(f)
        sorted_locals = set()
        raw = set(f.params)
        bad = []
        i = 0
        while i < len(body):
            t = body[i]
            if t.is_id("def") and i + 3 < len(body) and body[i + 1].kind == "id" and body[i + 2].is_p("="):
                name = body[i + 1].text
                if body[i + 3].kind == "id" and body[i + 3].text in sorting and i + 4 < len(body) and body[i + 4].is_p("("):
                    sorted_locals.add(name)
                    raw.discard(name)
                else:
                    raw.discard(name) if name in raw and not body[i + 3].is_id(name) else None
                    sorted_locals.discard(name)
                i += 3
                continue
            if t.kind == "id" and i + 1 < len(body) and body[i + 1].is_p("[") and not (i and body[i - 1].is_p("->")):
                if t.text in raw or (t.text not in sorted_locals and t.text in f.params):
                    bad.append(t)
            i += 1
        ctx.ob("C19.median", f"modules/stat.ckl: {f.name}: indexes only sorted copies "
               f"(sorted locals {sorted(sorted_locals)})", not bad)
        for t in bad:
            ctx.fail("C19.median", f"modules/stat.ckl:{f.name}", None,
                     f"{f.name} indexes its raw parameter `{t.text}` instead of the sorted copy: the result depends on "
                     f"the order of the input", expr=f"{f.name}: {t.text}[..]", file="src/ckl/modules/stat.ckl",
                     line=t.line)

    # ---------------------------------------------------------------- set algebra does not alias operands
    from .C16 import analyse_ckl
    ssrc = model.ckl_modules.get("set.ckl")
    if ssrc is not None:
        stoks = cklsrc.tokenize(ssrc[0])
        mut = {"append": {0}, "insert_at": {0}, "delete_at": {0}, "remove": {0}, "put": {0}, "append_all": {0}}
        for f in cklsrc.functions(stoks):
            found = analyse_ckl(f, mut)
            ctx.ob("C19.alias", f"modules/set.ckl: {f.name}: result is built in a fresh set", not found)
            for p, what, line in found:
                ctx.fail("C19.alias", f"modules/set.ckl:{f.name}", None,
                         f"{f.name} builds its result inside its operand `{p}` ({what}): the operand changes and "
                         f"later set-algebra calls on it give wrong answers", expr=f"{f.name}: {what}",
                         file="src/ckl/modules/set.ckl", line=line)
