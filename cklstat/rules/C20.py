"""C20 - Reported source lines are the lines where the reported construct starts.

Decided statically:
  C20.stamp     every token's position is built from coordinates captured when the scanner left the
                start state for that token (never from the live counters in a state reached by
                look-ahead, where they already include the terminator - possibly a line break)
  C20.counters  line/column are advanced once per character: the bookkeeping block has the expected
                shape and every path that unreads the character suppresses the second update
  C20.name      the file name given to parse_script reaches every SourcePos; every caller names its
                source; module code is parsed under a name derived from the module
  C20.capture   the parser captures an operator's position before it parses the operands (no call whose
                arguments parse a sub-expression and read the cursor position afterwards)
  C20.pos       every CklRuntimeError constructed in an evaluator passes the node's position, every one
                in a built-in's execute the call position; the Args.getAs* wrappers re-stamp the
                position-less conversion errors of the value classes
  C20.trace     invoke() appends the call position to the stack trace before re-raising
Not decided: column accuracy inside multi-character tokens; positions of conversion errors raised by direct
asX() calls that bypass the wrappers (listed in evidence notes).
"""
import ast

from ..callgraph import CallGraph
from ..core import norm
from ..lexmodel import LexModel, LexShapeError

P = "C20"
EXPLANATION = __doc__
TECHNIQUE = "extracted scanner automaton (def-use of position expressions) + argument-evaluation-order and " \
            "constructor-argument checks over the AST"
LEVEL_TEXT = (
    "Static analysis of how positions are produced and carried: token stamps are shown to depend only on "
    "coordinates captured at the token's first character for every token kind and every following character, "
    "the counters are advanced exactly once per character on all paths, the file name reaches every position, "
    "operator positions are captured before operands are parsed, and every runtime error constructed in an "
    "evaluator or built-in carries a position. These are necessary conditions of correct line reporting for "
    "every layout; that the captured line is the *right* one for each construct kind is not executed.")
LEVEL_NOTE = "Trusted: CPython ast and left-to-right argument evaluation; the scanner-shape extractor."
ASSUMPTIONS = ["errors raised by Value.asX() called directly (not through Args.getAsX) have no position by "
               "construction of the base class; they are listed, not judged"]
FLOORS = {"C20.stamp": 28, "C20.counters": 10, "C20.name": 6, "C20.pos": 100, "C20.capture": 100,
          "C20.trace": 1}


def run(ctx):
    model = ctx.model
    try:
        lm = LexModel(model, P)
    except LexShapeError as e:
        ctx.broken("Lexer.scan", str(e))
    scan = lm.func

    # ------------------------------------------------------------ C20.stamp
    # where are startline/startcolumn written?
    start_writes = {}
    for s, leaves in lm.states.items():
        for l in leaves:
            for op in l.tempbuf:
                if op[0] in ("startline", "startcolumn"):
                    start_writes.setdefault(op[0], set()).add((s, op[1]))
    have_start = bool(start_writes)
    for var, want in (("startline", "line"), ("startcolumn", "column")):
        if var in start_writes:
            ok = all(s == 0 and v == want for s, v in start_writes[var])
            ctx.check("C20.stamp", scan, None, ok,
                      f"{var} is written outside the start state or not from `{want}`: {sorted(start_writes[var])}",
                      expr=f"writers of {var}", site=f"writers of {var}: only state 0, from {want}")
    if have_start:
        # every state-0 leaf records the start coordinates before anything else
        for l in lm.states[0]:
            ops = [op[0] for op in l.tempbuf]
            ok = "startline" in ops and "startcolumn" in ops
            ctx.check("C20.stamp", scan, None, ok,
                      "a path through the start state does not record the token's start line/column",
                      expr=f"state 0 leaf [{l.cond_text()[-60:]}]",
                      site=f"state 0 [{l.cond_text()[-50:]}]: records start coordinates")
    for s, leaves in sorted(lm.states.items()):
        for l in leaves:
            for e in l.emits:
                pos = e.pos
                txt = norm(pos)
                names = {n.id for n in ast.walk(pos) if isinstance(n, ast.Name)}
                live = names & {"line", "column"}
                if s == 0 and not l.unread:
                    ok = isinstance(pos, ast.Call) and norm(pos.func) == "SourcePos"
                else:
                    ok = isinstance(pos, ast.Call) and norm(pos.func) == "SourcePos" and not live
                if ok and isinstance(pos, ast.Call) and len(pos.args) == 3:
                    ok = norm(pos.args[0]) == "fname"
                # every other name must be a start coordinate captured in the start state
                for nm in names - {"fname", "SourcePos", "line", "column", "len", "token"}:
                    if nm not in start_writes:
                        ok = False
                if (names & {"startline", "startcolumn"}) and not all(
                        v in start_writes for v in names & {"startline", "startcolumn"}):
                    ok = False
                ctx.check("C20.stamp", scan, e.node, ok,
                          f"state {s} stamps token {e.value_text} with {txt}: it uses the live line/column "
                          f"counters (already advanced past the look-ahead character) or not the file name",
                          expr=f"state {s} emit {e.value_text} pos {txt}",
                          site=f"state {s} emit {e.value_text} ({e.type}): {txt}")

    # ------------------------------------------------------------ C20.counters
    pre = lm.prelude
    ptxt = [norm(s) for s in pre]
    upd = [s for s in pre if isinstance(s, ast.If) and norm(s.test) == "updatepos"]
    ok = len(upd) == 1
    if ok:
        body = upd[0].body
        ok = len(body) == 1 and isinstance(body[0], ast.If) and norm(body[0].test) == "ch == '\\n'" \
            and [norm(x) for x in body[0].body] == ["line += 1", "column = 0"] \
            and [norm(x) for x in body[0].orelse] == ["column += 1"]
    ctx.check("C20.counters", scan, upd[0] if upd else None, ok,
              "line/column bookkeeping is not `if updatepos: if ch == '\\n': line += 1; column = 0 else: column += 1`",
              expr="bookkeeping block", site="loop prelude: line/column bookkeeping shape")
    idx_upd = pre.index(upd[0]) if upd else -1
    ok = idx_upd >= 0 and idx_upd + 1 < len(pre) and norm(pre[idx_upd + 1]) == "updatepos = True"
    ctx.check("C20.counters", scan, None, ok, "updatepos is not re-armed after the bookkeeping block",
              expr="updatepos = True", site="loop prelude: updatepos re-armed")
    ok = lm.init.get("line") == "1" and lm.init.get("column") == "0" and lm.init.get("updatepos") == "True"
    ctx.check("C20.counters", scan, None, ok, "counters do not start at line 1 / column 0",
              expr="initial counters", site="initial line=1 column=0 updatepos=True")
    for s, leaves in sorted(lm.states.items()):
        for l in leaves:
            if l.unread or l.updatepos_false:
                ok = l.unread == l.updatepos_false
                ctx.check("C20.counters", scan, None, ok,
                          f"state {s}: the character is unread {'without' if l.unread else 'not but'} "
                          f"`updatepos = False`: the line/column counters are advanced twice (or not at all) "
                          f"for it", expr=f"state {s} [{l.cond_text()[-60:]}]",
                          site=f"state {s} [{l.cond_text()[-45:]}]: unread <=> updatepos=False")
    # no other writer of line/column inside the state machine
    for n in ast.walk(scan.node):
        tg = []
        if isinstance(n, ast.Assign):
            tg = n.targets
        elif isinstance(n, ast.AugAssign):
            tg = [n.target]
        for t in tg:
            if isinstance(t, ast.Name) and t.id in ("line", "column"):
                inside = any(n is x for u in upd for x in ast.walk(u))
                init = n in scan.node.body
                ctx.check("C20.counters", scan, n, inside or init,
                          "line/column written outside the bookkeeping block")

    # ------------------------------------------------------------ C20.name
    lexer_cls = model.cls(P, "Lexer")
    init = lexer_cls.methods["__init__"]
    ok = "self.name = name" in norm(init.node) and lm.init.get("fname") == "self.name"
    ctx.check("C20.name", init, None, ok, "the scanner's file name is not the name given to the Lexer",
              expr="fname = self.name", site="Lexer: name -> self.name -> fname")
    ps = model.func(P, "parser", "parse_script")
    ok = norm(ps.node.body[-1]) == "return parse(Lexer(script, filename).scan())" and ps.params == ["script", "filename"]
    ctx.check("C20.name", ps, None, ok, "parse_script does not hand its filename to the Lexer",
              expr="parse_script", site="parse_script: filename -> Lexer")
    cg = CallGraph(model)
    for f in model.all_funcs(True):
        for r in cg.refs(f):
            if r.kind == "func" and r.target is ps and r.is_call:
                call = r.call
                has_name = len(call.args) >= 2 or any(k.arg == "filename" for k in call.keywords)
                ctx.check("C20.name", f, call, has_name,
                          "parse_script called without a source name: positions would read '-'")
                if f.qual == "NodeRequire.evaluate" and has_name:
                    ctx.check("C20.name", f, call, "modulefile" in norm(call.args[1]),
                              "module code is not parsed under a name derived from the module")
    interp = model.method(P, "Interpreter", "interpret")
    ok = any(isinstance(n, ast.Call) and norm(n.func) == "parse_script" and len(n.args) >= 2
             and norm(n.args[1]) == "filename" for n in ast.walk(interp.node))
    ctx.check("C20.name", interp, None, ok, "Interpreter.interpret does not pass its filename on",
              expr="interpret: filename", site="Interpreter.interpret: filename -> parse_script")

    # ------------------------------------------------------------ C20.capture
    parser = model.module(P, "parser")
    for f in parser.funcs.values():
        for n in ast.walk(f.node):
            if not isinstance(n, ast.Call):
                continue
            order = []      # evaluation order of interesting sub-calls among the arguments

            def visit(x):
                for ch in ast.iter_child_nodes(x):
                    visit(ch)
                if isinstance(x, ast.Call):
                    fn = norm(x.func)
                    if isinstance(x.func, ast.Name) and fn in parser.funcs and "lexer" in parser.funcs[fn].params \
                            and not fn.startswith("at_"):
                        order.append(("parse", x))
                    elif fn in ("lexer.getPos", "lexer.getPosNext"):
                        order.append(("pos", x))

            for a in list(n.args) + [k.value for k in n.keywords]:
                visit(a)
            if not any(k == "pos" for k, _ in order):
                continue
            seen_parse = False
            bad = False
            for k, x in order:
                if k == "parse":
                    seen_parse = True
                elif seen_parse:
                    bad = True
            ctx.check("C20.capture", f, n, not bad,
                      "a position is read from the cursor after a sub-expression was parsed in the same "
                      "argument list: the node gets the position of the operand's last token, not of its own "
                      "first token")
    # the same along control flow: `lexer.getPos()` is the position of the token consumed last; when, on some path,
    # the last cursor event before the read was a sub-parse (not a match / next of this construct's own token), the
    # value read is the position of the operand's last token
    from ..cfg import CFG
    PARSE_HELPERS = set()
    lexer_funcs = {fn.name for fn in parser.funcs.values() if "lexer" in fn.params}

    def cursor_events(a):
        out = []

        def visit(x):
            for ch in ast.iter_child_nodes(x):
                visit(ch)
            if isinstance(x, ast.Call):
                fn = norm(x.func)
                if fn.startswith("parse_") or fn in PARSE_HELPERS or (fn in lexer_funcs and not fn.startswith("at_")):
                    out.append(("parse", x))
                elif fn in ("lexer.matchIf", "lexer.match", "lexer.next", "lexer.matchIdentifier", "lexer.eat",
                            "lexer.previous"):
                    out.append(("consume", x))
                elif fn == "lexer.getPos":
                    out.append(("pos", x))
        visit(a)
        return out

    n_reads = 0
    for f in parser.funcs.values():
        if not any(isinstance(x, ast.Call) and norm(x.func) == "lexer.getPos" for x in ast.walk(f.node)):
            continue
        g = CFG(f.node, implicit_exc=False)

        def step(state, a):
            for k, x in cursor_events(a):
                if k == "parse":
                    state = frozenset({"after-subparse"})
                elif k == "consume":
                    state = frozenset({"after-token"})
            return state

        def transfer(node, label, state):
            a = node.ast
            if a is None:
                return state
            return step(state, a.iter if node.kind == "for" else a)

        st = g.dataflow(frozenset({"after-token"}), transfer, lambda x, y: x | y)
        for node in g.nodes:
            a = node.ast
            if a is None or node.id not in st:
                continue
            a = a.iter if node.kind == "for" else a
            state = st[node.id]
            for k, x in cursor_events(a):
                if k == "parse":
                    state = frozenset({"after-subparse"})
                elif k == "consume":
                    state = frozenset({"after-token"})
                else:
                    n_reads += 1
                    ctx.check("C20.capture", f, x, "after-subparse" not in state,
                              "lexer.getPos() is read on a path where the last thing that moved the cursor was a "
                              "sub-parse: the position obtained is that of the operand's last token, not of this "
                              "construct's own token", expr=f"getPos after sub-parse in {norm(a)[:60]}",
                              site=f"{f.qual}: getPos() read right after this construct's own token [{norm(a)[:50]}]")
    if n_reads < 15:
        ctx.broken("parser.py", f"only {n_reads} lexer.getPos() reads found")
    # positions handed to nodes come from a token, the cursor or a captured local
    npos = 0
    for f in parser.funcs.values():
        for n in ast.walk(f.node):
            if isinstance(n, ast.Call) and isinstance(n.func, ast.Name) and n.func.id in model.classes and n.args \
                    and n.func.id.startswith("Node"):
                ci = model.find_method(model.classes[n.func.id], "__init__")
                if ci is None or "pos" not in ci.params:
                    continue
                pi = ci.params.index("pos") - 1
                if pi >= len(n.args):
                    continue
                last = n.args[pi]
                txt = norm(last)
                ok = txt in ("pos", "token.pos", "key.pos", "lexer.getPos()", "lexer.getPosNext()") or \
                    txt.startswith("SourcePos(")
                npos += 1
                ctx.check("C20.capture", f, n, ok,
                          f"node constructed with position argument `{txt}` that is not a token/cursor position",
                          site=f"{f.qual}: {n.func.id}(..., {txt})")

    # ------------------------------------------------------------ C20.pos
    for c in model.classes.values():
        for m in c.methods.values():
            is_eval = m.name == "evaluate" and c.module.name == "nodes"
            is_exec = m.name == "execute" and c.module.name == "functions"
            helper = c.module.name == "functions" and c.name.startswith("Func") and m.name not in ("__init__", "getArgNames")
            if not (is_eval or is_exec or helper):
                continue
            for n in ast.walk(m.node):
                if isinstance(n, ast.Call) and norm(n.func) == "CklRuntimeError":
                    if len(n.args) < 3:
                        ctx.check("C20.pos", m, n, False,
                                  "runtime error constructed without a position in an evaluator / built-in")
                        continue
                    p = norm(n.args[2])
                    if is_eval:
                        ok = p == "self.pos"
                    else:
                        ok = p in ("pos", "result.pos")
                    ctx.check("C20.pos", m, n, ok,
                              f"runtime error carries `{p}` instead of the "
                              f"{'node' if is_eval else 'call'} position")
    for f in model.module(P, "nodes").funcs.values():
        for n in ast.walk(f.node):
            if isinstance(n, ast.Call) and norm(n.func) == "CklRuntimeError":
                ok = len(n.args) >= 3 and norm(n.args[2]) in ("pos", "self.pos")
                ctx.check("C20.pos", f, n, ok, "runtime error constructed without a position in an evaluation helper")
    args_cls = model.cls(P, "Args")
    wrappers = [m for m in args_cls.methods.values() if m.name.startswith("getAs")]
    if len(wrappers) < 11:
        ctx.broken("Args.getAs*", f"only {len(wrappers)} conversion wrappers found")
    def conversions_restamped(m, depth=0):
        """(number of conversion calls, all of them inside `try: .. except CklRuntimeError as e: e.pos = self.pos;
        raise`), following `self.helper(..)` delegation inside class Args"""
        guarded = set()
        for t in ast.walk(m.node):
            if not isinstance(t, ast.Try):
                continue
            for h in t.handlers:
                if h.type is not None and norm(h.type) == "CklRuntimeError" and h.name and \
                        [norm(x) for x in h.body] == [f"{h.name}.pos = self.pos", "raise"]:
                    for st_ in t.body:
                        guarded |= {id(x) for x in ast.walk(st_)}
        n_conv, all_ok = 0, True
        for n in ast.walk(m.node):
            if not isinstance(n, ast.Call):
                continue
            fn = n.func
            is_conv = isinstance(fn, ast.Attribute) and fn.attr.startswith("as") and fn.attr[2:3].isupper() and not n.args
            is_conv = is_conv or (isinstance(fn, ast.Call) and norm(fn.func) == "getattr")
            if is_conv:
                n_conv += 1
                all_ok = all_ok and id(n) in guarded
            elif isinstance(fn, ast.Attribute) and norm(fn.value) == "self" and depth < 2 \
                    and fn.attr in args_cls.methods and fn.attr not in ("get", "hasArg", "isNull"):
                k, ok2 = conversions_restamped(args_cls.methods[fn.attr], depth + 1)
                if k:
                    n_conv += k
                    all_ok = all_ok and (ok2 or id(n) in guarded)
        return n_conv, all_ok

    for m in wrappers:
        k, ok = conversions_restamped(m)
        ok = ok and k >= 1
        ctx.check("C20.pos", m, None, ok,
                  "conversion wrapper does not re-stamp the position-less conversion error with the call position",
                  expr=m.qual, site=f"{m.qual}: except CklRuntimeError as e: e.pos = self.pos; raise")
    for m in args_cls.methods.values():
        for n in ast.walk(m.node):
            if isinstance(n, ast.Call) and norm(n.func) == "CklRuntimeError":
                ok = len(n.args) >= 3 and norm(n.args[2]) == "self.pos"
                ctx.check("C20.pos", m, n, ok, "argument error constructed without the call position")
    # direct asX() calls that bypass the wrappers: listed
    cnt = 0
    for f in model.all_funcs():
        if f.module.name not in ("nodes", "functions"):
            continue
        for n in ast.walk(f.node):
            if isinstance(n, ast.Call) and isinstance(n.func, ast.Attribute) and n.func.attr.startswith("as") \
                    and n.func.attr[2:3].isupper() and not n.args:
                cnt += 1
    ctx.note(f"{cnt} direct asX() conversions in nodes.py/functions.py raise position-less errors on failure "
             f"(not judged)")

    # a stray break / continue is reported where the keyword stands, not where the function was called
    from .common import signal_first_exit, raised_ctors
    for qual in (("FuncLambda", "execute"), ("Interpreter", "interpret")):
        m = model.method(P, *qual)
        for sig in ("isBreak", "isContinue"):
            var, st_ = signal_first_exit(m, sig)
            if var is None:
                ctx.broken(m.qual, "evaluation of the body / script not found")
            cs = raised_ctors(model, m, st_.exc) if isinstance(st_, ast.Raise) and st_.exc is not None else None
            if not cs:
                continue        # C04.signal reports a missing rejection
            args3 = []
            for c_ in cs:
                if len(c_.args) >= 3:
                    args3.append(c_.args[2])
            # through a helper the position is the helper's parameter: look at the raise expression's own arguments
            exprs = args3 if all(any(isinstance(x, ast.Name) and x.id == var for x in ast.walk(a)) for a in args3) \
                and args3 else ([st_.exc] if isinstance(st_.exc, ast.Call) else [])
            ok = bool(exprs) and all(any(isinstance(x, ast.Attribute) and x.attr == "pos" and any(
                isinstance(y, ast.Name) and y.id == var for y in ast.walk(x)) for x in ast.walk(e)) for e in exprs)
            ctx.check("C20.pos", m, st_, ok,
                      f"a stray `{sig[2:].lower()}` is reported with a position that does not come from the signal "
                      f"(`{var}...pos`): the error points at the call site instead of the keyword",
                      expr=f"{m.qual} stray {sig[2:].lower()} position",
                      site=f"{m.qual}: stray {sig[2:].lower()} carries the keyword's position")

    # ------------------------------------------------------------ C20.trace
    inv = model.func(P, "nodes", "invoke")
    ok = False
    for n in ast.walk(inv.node):
        if isinstance(n, ast.ExceptHandler) and n.type is not None and norm(n.type) == "CklRuntimeError" and n.name:
            body = n.body
            if body and isinstance(body[-1], ast.Raise) and body[-1].exc is None:
                for st_ in body[:-1]:
                    t = norm(st_)
                    mentions_pos = any(isinstance(x, ast.Name) and x.id == inv.params[-1] for x in ast.walk(st_))
                    if t.startswith(f"{n.name}.stacktrace.append(") and mentions_pos:
                        ok = True
    ctx.check("C20.trace", inv, None, ok,
              "invoke() no longer appends the call position to the stack trace before re-raising",
              expr="invoke handler", site="invoke: except CklRuntimeError as e: e.stacktrace.append(.. str(pos)); raise")
