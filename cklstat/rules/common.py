"""Rule fragments shared by several properties (built on the kinds engine E4)."""
import ast
import datetime
import re

from ..core import norm

HOST_PY = {"str": str, "int": int, "float": float, "bool": bool, "list": list, "dict": dict, "set": set,
           "tuple": tuple, "bytes": bytes, "None": type(None), "datetime": datetime.datetime,
           "re.Pattern": re.Pattern, "frozenset": frozenset, "range": range,
           "dictview": type({}.keys()), "TextIO": __import__("io").TextIOWrapper}


def known(av):
    return av.types is not None and av.types and not any(t.startswith(("PARAM:", "SELF", "?")) for t in av.types)


def attr_obligations(ctx, rule, engine, func, exempt=()):
    """Every attribute / method used on a receiver whose type set is known must exist on each member."""
    ip = engine.interp(func)
    n = 0
    for ev in ip.events:
        if ev.kind != "attr":
            continue
        base, attr = ev.data
        if not known(base):
            continue
        missing = []
        for t in sorted(base.types):
            if t in engine.model.classes or t == "ValueFunc":
                has = engine.class_has_attr(t, attr)
                if t == "ValueFunc" and not has:
                    has = any(engine.class_has_attr(c, attr) for c in engine.cfg.func_classes)
                    # an attribute only some built-ins have is not guaranteed on an arbitrary function value
                    has = engine.class_has_attr("ValueFunc", attr) or \
                        all(engine.class_has_attr(c, attr) for c in engine.cfg.func_classes)
                if has is False:
                    missing.append(t)
            elif t in HOST_PY:
                if not hasattr(HOST_PY[t], attr):
                    missing.append(t)
        if (func.qual, attr) in exempt:
            continue
        n += 1
        site = f"{func.qual}: {norm(ev.node)[:90]}"
        ok = not missing
        ctx.ob(rule, site, ok, "" if ok else f"missing on {missing}")
        if not ok:
            ctx.fail(rule, func, ev.node,
                     f"attribute/method '{attr}' is used on a value that can be {sorted(base.types)[:6]} but "
                     f"{missing} has no such attribute: AttributeError at run time")
    return n


def resolve_static_call(model, func, call):
    """The Func a call statically names: f(..) in func's module (or imported from a sibling module), self.m(..)
    along the MRO of func's class, Class.m(..).  None when it is anything else."""
    fn = call.func
    if isinstance(fn, ast.Name):
        if fn.id in func.module.funcs:
            return func.module.funcs[fn.id]
        origin = func.module.imports.get(fn.id, "")
        if origin.startswith("ckl."):
            parts = origin.split(".")
            mod = model.modules.get(parts[1]) if len(parts) == 3 else None
            if mod is not None and parts[2] in mod.funcs:
                return mod.funcs[parts[2]]
        return None
    if isinstance(fn, ast.Attribute) and isinstance(fn.value, ast.Name):
        if fn.value.id in ("self", "cls") and func.cls is not None:
            return model.find_method(func.cls, fn.attr)
        if fn.value.id in model.classes:
            return model.find_method(model.classes[fn.value.id], fn.attr)
    return None


def bounds_summaries(model, func, **kw):
    """summaries= callback for intervals.Bounds: one-level summaries of statically named helpers."""
    from ..intervals import ContextSummary
    cache = {}

    def get(call):
        callee = resolve_static_call(model, func, call)
        if callee is None or callee is func:
            return None
        if callee.qual not in cache:
            cache[callee.qual] = ContextSummary(callee.node, **kw)
        return cache[callee.qual]

    return get


# ---------------------------------------------------------------------------------------------------
# operator tables of the expression parser (shared by C02 and C14)
def module_tables(module):
    """module-level NAME = {str: str} dictionaries and NAME = [str, ..] sequences"""
    dicts, seqs = {}, {}
    for name, v in module.globals_assigned.items():
        if isinstance(v, ast.Dict) and v.keys and all(
                isinstance(k, ast.Constant) and isinstance(k.value, str) for k in v.keys) and all(
                isinstance(x, ast.Constant) and isinstance(x.value, str) for x in v.values):
            dicts[name] = {k.value: x.value for k, x in zip(v.keys, v.values)}
            seqs[name] = [k.value for k in v.keys]
        elif isinstance(v, (ast.List, ast.Tuple, ast.Set)) and v.elts and all(
                isinstance(x, ast.Constant) and isinstance(x.value, str) for x in v.elts):
            seqs[name] = [x.value for x in v.elts]
    return dicts, seqs


def strings_of(e, seqs, local=None):
    """strings an expression denotes (literal sequence, local or module-level sequence/dict, list(T), T.keys())"""
    if isinstance(e, (ast.List, ast.Tuple, ast.Set)):
        if e.elts and all(isinstance(x, ast.Constant) and isinstance(x.value, str) for x in e.elts):
            return [x.value for x in e.elts]
        return None
    if isinstance(e, ast.Name):
        if local and e.id in local:
            return local[e.id]
        return seqs.get(e.id)
    if isinstance(e, ast.Call) and isinstance(e.func, ast.Name) and e.func.id in ("list", "tuple", "sorted", "set",
                                                                                  "frozenset") and len(e.args) == 1:
        return strings_of(e.args[0], seqs, local)
    if isinstance(e, ast.Call) and isinstance(e.func, ast.Attribute) and e.func.attr == "keys" and not e.args:
        return strings_of(e.func.value, seqs, local)
    return None


def tokens_tested(model, func, depth=1):
    """Literal tokens a parser function looks for: matchIf / peekn / match constants, peekOne lists, membership
    tests against literal or table sequences, keys of the module tables it subscripts; helpers taking the lexer are
    followed one level."""
    dicts, seqs = module_tables(func.module)
    local = {}
    for n in ast.walk(func.node):
        if isinstance(n, ast.Assign) and len(n.targets) == 1 and isinstance(n.targets[0], ast.Name):
            v = strings_of(n.value, seqs)
            if v is not None:
                local[n.targets[0].id] = v
    out = set()
    for n in ast.walk(func.node):
        if isinstance(n, ast.Call) and isinstance(n.func, ast.Attribute) and norm(n.func.value) == "lexer":
            a = n.args
            if n.func.attr in ("matchIf", "match") and a and isinstance(a[0], ast.Constant):
                out.add(a[0].value)
            elif n.func.attr == "peekn" and len(a) >= 2 and isinstance(a[1], ast.Constant):
                out.add(a[1].value)
            elif n.func.attr == "peekOne" and len(a) >= 2:
                out |= set(strings_of(a[1], seqs, local) or ())
        elif isinstance(n, ast.Compare) and len(n.ops) == 1 and isinstance(n.ops[0], (ast.In, ast.NotIn)) \
                and ".value" in norm(n.left):
            out |= set(strings_of(n.comparators[0], seqs, local) or ())
        elif isinstance(n, ast.Subscript) and isinstance(n.value, ast.Name) and n.value.id in dicts:
            out |= set(dicts[n.value.id])
        elif isinstance(n, ast.Call) and isinstance(n.func, ast.Name) and depth > 0 \
                and n.func.id in func.module.funcs and any(norm(x) == "lexer" for x in n.args) \
                and not n.func.id.startswith("parse_"):
            out |= tokens_tested(model, func.module.funcs[n.func.id], depth - 1)
    return out


def operator_natives(model, func):
    """{token: native name} built by the operator loop of a precedence level.  For every path through the loop body:
    the operator token consumed on it (matchIf(tok) taken, match(tok), or the facts tested on a local holding
    lexer.next().value) and the native handed to func_call (a literal, a local bound to a literal, or TABLE[token]
    for a module-level table).  None when the function has no single operator loop."""
    from ..cfg import CFG
    dicts, seqs = module_tables(func.module)
    loops = [n for n in func.node.body if isinstance(n, ast.While)]
    if len(loops) != 1:
        return None
    frag = ast.FunctionDef(name="_it", args=ast.arguments(posonlyargs=[], args=[], kwonlyargs=[], kw_defaults=[],
                                                          defaults=[], vararg=None, kwarg=None),
                           body=loops[0].body, decorator_list=[], returns=None, type_comment=None,
                           lineno=1, col_offset=0)
    if hasattr(ast, "TypeVar"):
        frag.type_params = []
    try:
        g = CFG(frag, implicit_exc=False)
        paths = g.paths(max_paths=4000)
    except OverflowError:
        return None
    local_seqs = {}
    for n in ast.walk(func.node):
        if isinstance(n, ast.Assign) and len(n.targets) == 1 and isinstance(n.targets[0], ast.Name):
            v = strings_of(n.value, seqs)
            if v is not None:
                local_seqs[n.targets[0].id] = v
    out = {}

    def put(tok, native):
        if tok in out and out[tok] != native:
            out[tok] = "<ambiguous>"
        else:
            out[tok] = native

    def is_next_value(e):
        return isinstance(e, ast.Attribute) and e.attr == "value" and isinstance(e.value, ast.Call) \
            and norm(e.value.func) == "lexer.next"

    for path in paths:
        toks, consts, tokvars, facts, tabled = [], {}, set(), {}, {}
        for node, label in path:
            a = node.ast
            if a is None:
                continue
            if node.kind == "test":
                for t, pol in _conj(a, label == "true"):
                    if isinstance(t, ast.Call) and norm(t.func) == "lexer.matchIf" and t.args \
                            and isinstance(t.args[0], ast.Constant) and pol:
                        toks.append(t.args[0].value)
                    if isinstance(t, ast.Compare) and len(t.ops) == 1 and isinstance(t.left, ast.Name) \
                            and t.left.id in tokvars and pol:
                        new = None
                        if isinstance(t.ops[0], ast.Eq) and isinstance(t.comparators[0], ast.Constant):
                            new = {t.comparators[0].value}
                        elif isinstance(t.ops[0], ast.In):
                            ss = strings_of(t.comparators[0], seqs, local_seqs)
                            new = set(ss) if ss is not None else None
                        if new is not None:
                            facts[t.left.id] = facts[t.left.id] & new if t.left.id in facts else new
                continue
            for x in ast.walk(a):
                if isinstance(x, ast.Call) and norm(x.func) == "lexer.match" and x.args \
                        and isinstance(x.args[0], ast.Constant):
                    toks.append(x.args[0].value)
            if isinstance(a, ast.Assign) and len(a.targets) == 1 and isinstance(a.targets[0], ast.Name):
                v, val = a.targets[0].id, a.value
                consts.pop(v, None)
                tabled.pop(v, None)
                if is_next_value(val):
                    tokvars.add(v)
                    facts.pop(v, None)
                elif isinstance(val, ast.Constant) and v in tokvars:
                    facts[v] = {val.value}        # relop = 'is not'
                elif isinstance(val, ast.Constant):
                    consts[v] = val.value
                elif isinstance(val, ast.Subscript) and isinstance(val.value, ast.Name) and val.value.id in dicts:
                    tabled[v] = (val.value.id, val.slice)
            for x in ast.walk(a):
                if not (isinstance(x, ast.Call) and norm(x.func) == "func_call" and x.args):
                    continue
                f0 = x.args[0]
                if isinstance(f0, ast.Name) and f0.id in tabled:
                    tbl, key = tabled[f0.id]
                elif isinstance(f0, ast.Subscript) and isinstance(f0.value, ast.Name) and f0.value.id in dicts:
                    tbl, key = f0.value.id, f0.slice
                else:
                    tbl = key = None
                if tbl is not None:
                    if isinstance(key, ast.Name) and key.id in tokvars:
                        keys = facts.get(key.id, set(dicts[tbl]))
                    elif is_next_value(key):
                        keys = set(dicts[tbl])
                    else:
                        continue
                    for k in keys:
                        if k in dicts[tbl]:
                            put(k, dicts[tbl][k])
                    continue
                native = f0.value if isinstance(f0, ast.Constant) else consts.get(f0.id) if isinstance(f0, ast.Name) else None
                if native is None:
                    continue
                if len(toks) == 1:
                    put(toks[0], native)
                elif not toks:
                    for v in tokvars:
                        for k in facts.get(v, ()):
                            put(k, native)
    return out


def _conj(test, pol):
    """atomic (test, polarity) facts established by a branch outcome"""
    if isinstance(test, ast.UnaryOp) and isinstance(test.op, ast.Not):
        return _conj(test.operand, not pol)
    if isinstance(test, ast.BoolOp):
        if isinstance(test.op, ast.And) and pol or isinstance(test.op, ast.Or) and not pol:
            out = []
            for v in test.values:
                out += _conj(v, pol)
            return out
        return []
    return [(test, pol)]


def native_registry(model, prop="*"):
    """{native name: class name} as registered by functions.bind_native: the `if native == "lit": .. FuncX() ..` chain
    and/or module-level tables {"lit": FuncX} / {"lit": lambda: FuncX()} that bind_native consults."""
    functions = model.module(prop, "functions")
    bn = model.func(prop, "functions", "bind_native")
    reg = {}
    param = bn.params[1] if len(bn.params) > 1 else "native"
    for n in ast.walk(bn.node):
        if isinstance(n, ast.If) and isinstance(n.test, ast.Compare) and len(n.test.ops) == 1 \
                and isinstance(n.test.ops[0], ast.Eq) and norm(n.test.left) == param \
                and isinstance(n.test.comparators[0], ast.Constant):
            for st in n.body:
                for c in ast.walk(st):
                    if isinstance(c, ast.Call) and isinstance(c.func, ast.Name) and c.func.id.startswith("Func"):
                        reg.setdefault(n.test.comparators[0].value, c.func.id)
    used = {x.id for x in ast.walk(bn.node) if isinstance(x, ast.Name)}
    for name, v in functions.globals_assigned.items():
        if name not in used or not isinstance(v, ast.Dict):
            continue
        for k, x in zip(v.keys, v.values):
            if not (isinstance(k, ast.Constant) and isinstance(k.value, str)):
                continue
            if isinstance(x, ast.Lambda):
                x = x.body
            if isinstance(x, ast.Call):
                x = x.func
            if isinstance(x, ast.Name) and x.id.startswith("Func"):
                reg.setdefault(k.value, x.id)
    return reg


def decision_list(func_node, max_paths=400):
    """[(facts, returned expression AST)] for every path of a small function that ends in `return <expr>`:
    facts is the frozenset of (test text, truth) established by the branches taken (`not`, `and` on the true side
    and `or` on the false side are split).  The form is the same for a guard with early return, the inverted guard
    with the result nested, and an if/else.  None when the function is not of that kind (loops, too many paths)."""
    from ..cfg import CFG
    from ..facts import split_test
    if any(isinstance(n, (ast.For, ast.While, ast.Try, ast.With)) for n in ast.walk(func_node)):
        return None
    try:
        g = CFG(func_node, implicit_exc=False)
        paths = g.paths(max_paths=max_paths)
    except OverflowError:
        return None
    out = []
    for path in paths:
        facts = set()
        ret = None
        for node, label in path:
            if node.kind == "test" and label in ("true", "false"):
                facts |= split_test(node.ast, label == "true")
            elif node.kind == "return":
                ret = node.ast.value
        if ret is not None:
            out.append((frozenset(facts), ret))
    return out


def raised_ctors(model, f, e, depth=0):
    """Constructor calls a raise expression denotes: a direct call of a class, a statically named helper all of whose
    returns are such calls, or a local bound to one.  None when it cannot be told."""
    if isinstance(e, ast.Call):
        callee = resolve_static_call(model, f, e)
        if callee is None:
            return [e]
        if depth > 2:
            return None
        out = []
        for r in ast.walk(callee.node):
            if isinstance(r, ast.Return):
                if r.value is None:
                    return None
                sub = raised_ctors(model, callee, r.value, depth + 1)
                if sub is None:
                    return None
                out.extend(sub)
        return out or None
    if isinstance(e, ast.Name):
        vals = [a.value for a in ast.walk(f.node) if isinstance(a, ast.Assign) and len(a.targets) == 1
                and isinstance(a.targets[0], ast.Name) and a.targets[0].id == e.id]
        handlers = [h for h in ast.walk(f.node) if isinstance(h, ast.ExceptHandler) and h.name == e.id]
        if handlers and not vals:
            return []          # re-raise of the caught exception object
        out = []
        for v in vals:
            sub = raised_ctors(model, f, v, depth + 1)
            if sub is None:
                return None
            out.extend(sub)
        return out or None
    return None




def root_field_pred(model, func, field):
    """Predicate e -> bool: does the expression denote `<root environment>.<field>`?  Accepted: self.getBase().<field>,
    <local bound to self.getBase()>.<field>, a local bound to one of these, and a call of a method of the same class
    whose only return is one of these (an accessor)."""
    base_locals, field_locals = set(), set()

    def is_base(e):
        return norm(e) == "self.getBase()" or (isinstance(e, ast.Name) and e.id in base_locals)

    def direct(e, fn=func):
        if isinstance(e, ast.Attribute) and e.attr == field and is_base(e.value):
            return True
        if isinstance(e, ast.Call) and isinstance(e.func, ast.Attribute) and norm(e.func.value) == "self" \
                and not e.args and fn.cls is not None:
            acc = model.find_method(fn.cls, e.func.attr)
            if acc is not None and acc is not fn:
                rets = [r for r in ast.walk(acc.node) if isinstance(r, ast.Return)]
                if len(rets) == 1 and rets[0].value is not None and norm(rets[0].value) == f"self.getBase().{field}":
                    return True
        return False

    for _ in range(2):
        for n in ast.walk(func.node):
            if isinstance(n, ast.Assign) and len(n.targets) == 1 and isinstance(n.targets[0], ast.Name):
                if norm(n.value) == "self.getBase()":
                    base_locals.add(n.targets[0].id)
                elif direct(n.value):
                    field_locals.add(n.targets[0].id)

    def pred(e):
        return direct(e) or (isinstance(e, ast.Name) and e.id in field_locals)

    return pred


def signal_first_exit(m, sig):
    """In an evaluator that runs a body (`result = <x>.evaluate(..)`) and then inspects the control signal: the first
    statement that leaves the function when the result is the signal `sig` ('isReturn' / 'isBreak' / 'isContinue'),
    found by partially evaluating the statements after the evaluation.  -> (result variable, Return/Raise or None)"""
    from ..partial import prune

    def find_rest(stmts):
        for i, st in enumerate(stmts):
            if isinstance(st, ast.Assign) and isinstance(st.targets[0], ast.Name) and any(
                    isinstance(x, ast.Call) and isinstance(x.func, ast.Attribute) and x.func.attr == "evaluate"
                    for x in ast.walk(st.value)):
                return st.targets[0].id, stmts[i + 1:]
            for fld in ("body", "orelse", "finalbody"):
                sub = getattr(st, fld, None)
                if isinstance(sub, list) and sub and isinstance(sub[0], ast.stmt):
                    r = find_rest(sub)
                    if r:
                        return r
        return None

    fr = find_rest(m.node.body)
    if fr is None:
        return None, None
    var, rest = fr
    known_ = {f"{var}.{k}()": (k == sig) for k in ("isReturn", "isBreak", "isContinue")}
    known_.update({f"isinstance({var}, ValueControl{k[2:]})": (k == sig) for k in ("isReturn", "isBreak", "isContinue")})
    stmts, _ = prune(rest, known_)
    for st in stmts:
        if isinstance(st, (ast.Return, ast.Raise)):
            return var, st
        if isinstance(st, (ast.If, ast.For, ast.While, ast.Try, ast.With)):
            return var, None
    return var, None


def collection_sources(model, prop="*"):
    """What nodes.getCollectionValue hands to comprehensions for a set and for a map, per returned expression:
    [(kind, return node, in sorted-key order?, text, sorted by value?)]; None when the function is not understood."""
    from ..partial import prune
    gcv = model.func(prop, "nodes", "getCollectionValue")
    cparam = gcv.params[0]
    ckinds = sorted({x.func.attr for x in ast.walk(gcv.node) if isinstance(x, ast.Call)
                     and isinstance(x.func, ast.Attribute) and norm(x.func.value) == cparam
                     and x.func.attr.startswith("is") and not x.args})
    if "isMap" not in ckinds or "isSet" not in ckinds:
        return None
    out = []
    for kind in ("isSet", "isMap"):
        body, _ = prune(gcv.node.body, {f"{cparam}.{k}()": k == kind for k in ckinds})
        rets = [r for st_ in body for r in ast.walk(st_) if isinstance(r, ast.Return) and r.value is not None]
        if not rets:
            return None
        # locals that hold one expression (`sortedKeys = sorted(collection.value.keys())`) are read through
        single = {}
        for a_ in ast.walk(gcv.node):
            if isinstance(a_, ast.Assign) and len(a_.targets) == 1 and isinstance(a_.targets[0], ast.Name):
                single.setdefault(a_.targets[0].id, []).append(a_.value)
        single = {k: v[0] for k, v in single.items() if len(v) == 1}

        class _Sub(ast.NodeTransformer):
            def visit_Name(self, n_):
                if isinstance(n_.ctx, ast.Load) and n_.id in single:
                    return single[n_.id]
                return n_

        import copy
        for r in rets:
            r = ast.Return(value=_Sub().visit(copy.deepcopy(r.value)), lineno=r.lineno, col_offset=r.col_offset,
                           end_lineno=getattr(r, "end_lineno", r.lineno), end_col_offset=getattr(r, "end_col_offset", 0))
            t = norm(r.value)
            by_key = any(k in t for k in ("getSortedKeys()", "getSortedItems()")) or any(
                isinstance(c_, ast.Call) and norm(c_.func) == "sorted" and c_.args
                and not norm(c_.args[0]).endswith(".values()") for c_ in ast.walk(r.value))
            by_value = any(isinstance(c_, ast.Call) and norm(c_.func) == "sorted" and c_.args
                           and norm(c_.args[0]).endswith(".values()") for c_ in ast.walk(r.value))
            out.append((kind, r, by_key and not (kind == "isMap" and by_value), t, by_value))
    return out


def numeric_order_not_textual(ctx, model, prop, rule):
    """ValueInt / ValueDecimal.__lt__: a path that orders the operands by their rendering (str / repr) is taken only
    when the other operand is known NOT to be numerical.  `2.5 < 10` decided on the texts '2.5' and '10' is false."""
    for cname in ("ValueInt", "ValueDecimal"):
        lt = model.method(prop, cname, "__lt__")
        other = lt.params[1] if len(lt.params) > 1 else "other"
        dl = decision_list(lt.node)
        if dl is None:
            ctx.broken(f"{cname}.__lt__", "not a decision list (loops / too many paths)")
        bad = None
        for f, r in dl:
            rendered = any(isinstance(n, ast.Call) and norm(n.func) in ("str", "repr", "format") for n in ast.walk(r))
            if not rendered:
                continue
            nonnum = (f"{other}.isNumerical()", False) in f or \
                ((f"isinstance({other}, ValueInt)", False) in f and (f"isinstance({other}, ValueDecimal)", False) in f) \
                or (f"isinstance({other}, (ValueInt, ValueDecimal))", False) in f \
                or (f"isinstance({other}, (ValueDecimal, ValueInt))", False) in f
            if not nonnum:
                bad = r
        ctx.check(rule, lt, bad, bad is None,
                  f"{cname}.__lt__ can order a numerical operand by the rendered texts "
                  f"(`{norm(bad) if bad is not None else ''}` is reached without `{other}` being known non-numerical): "
                  f"int and decimal compare by value whichever side they are on (2.5 < 10)",
                  expr=f"{cname}.__lt__ numeric vs text", site=f"{cname}.__lt__: text order only for non-numerical operands")


def ckl_returns_collection_param(ctx, model, rule, why):
    """Library code written in the language: a function that treats a parameter as a collection (iterates it with
    `for .. in <p>`, or tests it with is_list / is_set / is_map / is_object) never hands that very parameter back with
    `return <p>`: the other ways out build a new value, so on this one the result would BE the caller's container."""
    from .. import cklsrc
    n = 0
    for fn, (src, _) in sorted(model.ckl_modules.items()):
        try:
            toks = cklsrc.tokenize(src)
            funcs = cklsrc.functions(toks)
        except cklsrc.CklTokenError as e:
            ctx.broken(f"modules/{fn}", str(e))
        for f in funcs:
            b = cklsrc.own_body(f)
            coll = set()
            for i, t in enumerate(b):
                if t.is_id("in") and i + 1 < len(b) and b[i + 1].kind == "id" and b[i + 1].text in f.params \
                        and any(x.is_id("for") for x in b[max(0, i - 6):i]):
                    coll.add(b[i + 1].text)
                if t.kind == "id" and t.text in ("is_list", "is_set", "is_map", "is_object") and i + 3 < len(b) \
                        and b[i + 1].is_p("(") and b[i + 2].kind == "id" and b[i + 2].text in f.params \
                        and b[i + 3].is_p(")"):
                    coll.add(b[i + 2].text)
            if not coll:
                continue
            n += 1
            bad = None
            for i, t in enumerate(b):
                if t.is_id("return") and i + 1 < len(b) and b[i + 1].kind == "id" and b[i + 1].text in coll \
                        and (i + 2 >= len(b) or b[i + 2].text in (";", "end", "else", "elif")):
                    bad = b[i + 1]
            ctx.ob(rule, f"modules/{fn}: {f.qual}: collection parameter(s) {sorted(coll)} never returned as the result",
                   bad is None)
            if bad is not None:
                ctx.fail(rule, f"modules/{fn}:{f.qual}", None,
                         f"{f.qual} returns its collection parameter `{bad.text}` itself on one way out: {why}",
                         expr=f"{f.qual}: return {bad.text}", file=f"src/ckl/modules/{fn}", line=bad.line)
    if n < 15:
        ctx.broken(rule, f"only {n} library functions with collection parameters found")
