"""Rule fragments shared by several properties (built on the kinds engine E4)."""
import ast
import datetime
import re

from ..core import norm

HOST_PY = {"str": str, "int": int, "float": float, "bool": bool, "list": list, "dict": dict, "set": set,
           "tuple": tuple, "bytes": bytes, "None": type(None), "datetime": datetime.datetime,
           "re.Pattern": re.Pattern, "frozenset": frozenset, "range": range,
           "dictview": type({}.keys())}


def known(av):
    return av.types is not None and av.types and not any(t.startswith(("PARAM:", "SELF", "?")) for t in av.types)


def attr_obligations(ctx, rule, engine, func, exempt=()):
    """Every attribute / method used on a receiver whose type set is known must exist on each member."""
    ip = engine.interp(func)
    n = 0
    for ev in ip.events:
        if ev.kind != "attr":
            continue
        base, attr = ev.data
        if not known(base):
            continue
        missing = []
        for t in sorted(base.types):
            if t in engine.model.classes or t == "ValueFunc":
                has = engine.class_has_attr(t, attr)
                if t == "ValueFunc" and not has:
                    has = any(engine.class_has_attr(c, attr) for c in engine.cfg.func_classes)
                    # an attribute only some built-ins have is not guaranteed on an arbitrary function value
                    has = engine.class_has_attr("ValueFunc", attr) or \
                        all(engine.class_has_attr(c, attr) for c in engine.cfg.func_classes)
                if has is False:
                    missing.append(t)
            elif t in HOST_PY:
                if not hasattr(HOST_PY[t], attr):
                    missing.append(t)
        if (func.qual, attr) in exempt:
            continue
        n += 1
        site = f"{func.qual}: {norm(ev.node)[:90]}"
        ok = not missing
        ctx.ob(rule, site, ok, "" if ok else f"missing on {missing}")
        if not ok:
            ctx.fail(rule, func, ev.node,
                     f"attribute/method '{attr}' is used on a value that can be {sorted(base.types)[:6]} but "
                     f"{missing} has no such attribute: AttributeError at run time")
    return n
