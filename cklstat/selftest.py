"""Thorough tier: the property's rules on /repo's working tree, plus the checker self-test.

Each stored variant (variants/<prop>/*.json) is applied to a scratch copy of the CURRENT tree in a fresh
temporary directory (outside /repo and /verif, removed afterwards); the rules are run on it and must
fire (breaking variants: a finding that the unmodified tree does not have, of the stated rule, naming
the stated construct) or stay silent (behaviour-preserving variants).  A variant whose anchor text no
longer occurs is skipped and counted.  A self-test failure means the checker is not trustworthy:
SELFTEST-FAIL and exit 2, never a VIOLATION.
"""
import glob
import json
import os
import shutil
import subprocess
import sys
import tempfile
import time
from concurrent.futures import ProcessPoolExecutor

from . import core


def load_variants(prop):
    out = []
    d = os.path.join(core.VERIF, "variants", prop)
    for p in sorted(glob.glob(os.path.join(d, "*.json"))):
        with open(p) as f:
            v = json.load(f)
        v["name"] = os.path.splitext(os.path.basename(p))[0]
        v["dir"] = d
        out.append(v)
    return out


def scratch_copy(repo):
    tmp = tempfile.mkdtemp(prefix="cklstat-variant-")
    shutil.copytree(os.path.join(repo, "src"), os.path.join(tmp, "src"),
                    ignore=shutil.ignore_patterns("__pycache__", "*.pyc", "*.egg-info"))
    return tmp


def apply_variant(v, root):
    """Returns None if applied, or a reason string if the variant does not apply to this tree."""
    if v.get("generator") == "combo":
        for step in v["steps"]:
            why = apply_variant({"generator": step, "params": True}, root)
            if why:
                return why
        return None
    if str(v.get("generator", "")).startswith("mutate:"):
        from . import mutate
        try:
            mutate.rewrite_tree(root, v["generator"].split(":", 1)[1])
        except (SyntaxError, KeyError) as e:
            return f"rewrite failed: {e}"
        return None
    if v.get("generator") == "alpha_rename":
        from . import alpha
        try:
            alpha.rename_tree(root, suffix=v.get("suffix", "_q"), params=v.get("params", True))
        except (ValueError, SyntaxError) as e:
            return f"alpha renaming failed: {e}"
        return None
    if "patch" in v:
        patch = os.path.join(v["dir"], v["patch"])
        r = subprocess.run(["patch", "-p1", "--no-backup-if-mismatch", "-s", "-f", "-i", patch],
                           cwd=root, capture_output=True, text=True)
        if r.returncode != 0:
            return "patch does not apply: " + (r.stdout + r.stderr).strip()[:200]
        return None
    for e in v["edits"]:
        p = os.path.join(root, e["file"])
        if not os.path.exists(p):
            return f"file {e['file']} missing"
        with open(p) as f:
            s = f.read()
        cnt = s.count(e["old"])
        want = e.get("count", 1)
        if cnt != want:
            return f"anchor text occurs {cnt} times in {e['file']} (expected {want})"
        s = s.replace(e["old"], e["new"])
        with open(p, "w") as f:
            f.write(s)
    return None


def _run_variant(args):
    prop, repo, v, base_keys = args
    import importlib
    mod = importlib.import_module(f"cklstat.rules.{prop}")
    tmp = scratch_copy(repo)
    try:
        why = apply_variant(v, tmp)
        if why:
            return {"variant": v["name"], "status": "skipped", "why": why}
        # the variant must still be valid Python (it has to "compile")
        code, findings, ctx = core.run_property(prop, "quick", tmp, mod, write_evidence=False, quiet=True)
        keys = {f.key: f for f in findings} if findings else {}
        if ctx is not None:
            keys = {f.key: f for f in ctx.findings}
        new = {k: f for k, f in keys.items() if k not in base_keys}
        expect = v.get("expect", "fire")
        if code == 2:
            if expect == "broken":
                return {"variant": v["name"], "status": "ok", "detail": "analysis refuses (exit 2) as expected"}
            return {"variant": v["name"], "status": "FAIL", "detail": "analysis error on variant (exit 2)"}
        if expect == "fire":
            rule = v.get("rule", "")
            sub = v.get("key_contains", "")
            hit = [k for k in new if k.startswith(rule) and sub in k]
            if hit:
                return {"variant": v["name"], "status": "ok", "detail": f"fired: {hit[0][:160]}"}
            return {"variant": v["name"], "status": "FAIL",
                    "detail": f"expected a new {rule} finding containing {sub!r}; new findings: "
                              + "; ".join(list(new)[:3])}
        if expect == "silent":
            if not new:
                return {"variant": v["name"], "status": "ok", "detail": "silent"}
            return {"variant": v["name"], "status": "FAIL",
                    "detail": "behaviour-preserving variant raised: " + "; ".join(list(new)[:3])}
        return {"variant": v["name"], "status": "FAIL", "detail": f"unknown expectation {expect}"}
    finally:
        shutil.rmtree(tmp, ignore_errors=True)


def run_thorough(prop, repo, mod, seed=0, write_evidence=True):
    t0 = time.time()
    code, new, ctx = core.run_property(prop, "thorough", repo, mod, seed, write_evidence=write_evidence)
    if code == 2 or ctx is None:
        return code
    base_keys = {f.key for f in ctx.findings}
    variants = load_variants(prop)
    results = []
    if variants:
        with ProcessPoolExecutor(max_workers=min(16, len(variants))) as ex:
            results = list(ex.map(_run_variant, [(prop, repo, v, base_keys) for v in variants]))
    ok = sum(1 for r in results if r["status"] == "ok")
    skipped = sum(1 for r in results if r["status"] == "skipped")
    failed = [r for r in results if r["status"] == "FAIL"]
    print(f"{prop}: self-test {ok} ok, {skipped} skipped, {len(failed)} failed of {len(results)} variants "
          f"[{time.time() - t0:.1f}s]")
    for r in results:
        if r["status"] != "ok":
            print(f"  {r['status']}: {r['variant']}: {r.get('why') or r.get('detail')}")
    if write_evidence:
        p = os.path.join(core.VERIF, "evidence", f"{prop}.json")
        with open(p) as f:
            ev = json.load(f)
        ev["coverage"]["selftest"] = {"variants": len(results), "ok": ok, "skipped": skipped,
                                      "failed": len(failed), "results": results}
        ev["wall_s"] = round(time.time() - t0, 3)
        with open(p, "w") as f:
            json.dump(ev, f, indent=1)
            f.write("\n")
    if failed:
        print(f"SELFTEST-FAIL property={prop}: the checker did not behave as recorded on "
              f"{len(failed)} variant(s); its verdict is not trustworthy")
        return 2
    return code
