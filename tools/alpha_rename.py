#!/venv/bin/python
"""Alpha-renaming of locals: a mechanical behaviour-preserving variant of the package.

usage: alpha_rename.py <dst dir> [--suffix _q] [--only file.py,..] [--params]

Copies /repo/src to <dst>/src and renames, in every function of src/ckl/*.py, each local variable (with --params also
every parameter that no call site in the package or the tests passes by keyword) to <name><suffix>, at exactly the
positions of the corresponding ast.Name / ast.arg nodes.  The result still passes the test suite (checked by hand:
`cd <dst> && PYTHONPATH=<dst>/src /venv/bin/python -m pytest -q -p no:cacheprovider /repo/tests` -> 854 passed); every
alarm a check raises on it is a dependence of that check on a local name.
"""
import os
import shutil
import sys

HERE = os.path.dirname(os.path.dirname(os.path.abspath(__file__)))
sys.path.insert(0, HERE)
from cklstat import alpha  # noqa: E402

dst = sys.argv[1]
suffix = sys.argv[sys.argv.index("--suffix") + 1] if "--suffix" in sys.argv else "_q"
only = set(sys.argv[sys.argv.index("--only") + 1].split(",")) if "--only" in sys.argv else None
if os.path.exists(os.path.join(dst, "src")):
    shutil.rmtree(os.path.join(dst, "src"))
shutil.copytree("/repo/src", os.path.join(dst, "src"), ignore=shutil.ignore_patterns("__pycache__", "*.egg-info"))
n = alpha.rename_tree(dst, suffix=suffix, params="--params" in sys.argv, only=only)
print(f"{n} occurrences renamed in {dst}/src/ckl")
