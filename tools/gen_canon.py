#!/venv/bin/python
"""Regenerate cklstat/canon_table.json (definition signature -> local name, per function) from /repo's current tree.
Run after every change to /repo that is meant to become the new reference (a `fix:` commit)."""
import ast
import json
import os
import sys

HERE = os.path.dirname(os.path.dirname(os.path.abspath(__file__)))
sys.path.insert(0, HERE)
from cklstat import canon, normal  # noqa: E402

repo = os.environ.get("CKL_REPO", "/repo")
pkg = os.path.join(repo, "src", "ckl")
trees = {}
for fn in sorted(os.listdir(pkg)):
    if fn.endswith(".py"):
        trees[fn[:-3]] = normal.normalise(ast.parse(open(os.path.join(pkg, fn)).read()))
table = canon.build(trees)
with open(canon.TABLE_PATH, "w") as f:
    json.dump(table, f, indent=0, sort_keys=True)
    f.write("\n")
print(sum(len(v) for v in table.values()), "functions,", sum(len(e) for v in table.values() for e in v.values()), "locals")
