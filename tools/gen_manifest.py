#!/venv/bin/python
"""Regenerates MANIFEST.json from the rule modules present (keeps it valid at all times)."""
import importlib
import json
import os
import sys

HERE = os.path.dirname(os.path.dirname(os.path.abspath(__file__)))
sys.path.insert(0, HERE)
sys.dont_write_bytecode = True

PROPS = ["C%02d" % i for i in range(1, 21)]
NA_FIXED = {
    "C17": "calendar arithmetic over ~3 million day values: whether the two loops in date.py invert each other "
           "depends on relational arithmetic between a running remainder and year/month lengths that no "
           "syntax-tree, CFG, kind or interval analysis in reach can express; a bounds rule on the month table "
           "would still fire after the correct repair (false alarm), so no static clause is armed "
           "(DESIGN.md section C17)",
}

checks, na = [], []
for p in PROPS:
    if p in NA_FIXED:
        na.append({"property_id": p, "reason": NA_FIXED[p]})
        continue
    try:
        mod = importlib.import_module(f"cklstat.rules.{p}")
    except ModuleNotFoundError:
        na.append({"property_id": p, "reason": "static check for this property is not built yet in this commit "
                                               "(planned, see DESIGN.md section 2)"})
        continue
    checks.append({
        "property_id": p,
        "quick_cmd": f"/venv/bin/python check {p} --tier quick",
        "thorough_cmd": f"/venv/bin/python check {p} --tier thorough",
        "evidence_file": f"/verif/evidence/{p}.json",
        "replay_cmd_template": f"/venv/bin/python check {p} --explain {{path}}",
        "engine": "cklstat",
        "level_claimed": {
            "category": "other",
            "text": mod.LEVEL_TEXT.strip(),
            "design_ref": f"DESIGN.md section 2, {p}",
        },
        "level_note": mod.LEVEL_NOTE.strip(),
        "technique": mod.TECHNIQUE.strip(),
    })

manifest = {
    "version": 1,
    "setup_cmd": "/venv/bin/python check --selfcheck",
    "hooks": {
        "guard": "CKL_VERIF",
        "enable": "none needed: static analysis reads /repo/src as it is; no instrumentation exists",
        "baseline_off_cmd": "cd /repo && /venv/bin/python -m pytest -ra -q -p no:cacheprovider --timeout=900 "
                            "--continue-on-collection-errors",
        "source_commits": [],
        "add_only": True,
    },
    "engines": [{
        "name": "cklstat",
        "path": "/verif/cklstat",
        "serves_properties": [c["property_id"] for c in checks],
        "kind_free_text": "repository-specific static analysis on the Python ast: resolved call graph and effect "
                          "analysis, statement-level CFG with exception and finally edges, abstract interpretation "
                          "of value kinds, extracted scanner/parser models, independent tokenizer for .ckl "
                          "library code; nothing under /repo is executed",
    }],
    "checks": checks,
    "not_applicable": na,
    "notes": "Every check is a static analysis of /repo's current working tree (CKL_REPO overrides the path for the "
             "self-test). Exit 0 = rules hold (known findings printed as KNOWN-FINDING), 1 = VIOLATION, 2 = analysis "
             "broken (anchor vanished / shape not understood / self-test failed) - never a silent pass. "
             "known_findings.json lists recorded defects and the fixed: entries.",
}
with open(os.path.join(HERE, "MANIFEST.json"), "w") as f:
    json.dump(manifest, f, indent=1)
    f.write("\n")
print(f"{len(checks)} checks, {len(na)} not applicable")
