#!/venv/bin/python
"""Add a status=known entry to known_findings.json (development-time tool; never used by a check).
usage: known.py PROP 'KEY' 'what fails' 'witness input' 'observed'"""
import json
import os
import sys

HERE = os.path.dirname(os.path.dirname(os.path.abspath(__file__)))
p = os.path.join(HERE, "known_findings.json")
d = json.load(open(p))
prop, key, what, witness, observed = sys.argv[1:6]
d["findings"] = [x for x in d["findings"] if not (x.get("status") == "known" and x["key"] == key)]
d["findings"].insert(0, {"status": "known", "property": prop, "rule": key.split("|")[0], "key": key,
                         "what": what, "witness": witness, "observed": observed})
json.dump(d, open(p, "w"), indent=1)
print("known findings:", sum(1 for x in d["findings"] if x.get("status") == "known"))
