#!/venv/bin/python
"""Fix-commit ledger: maps each `fix:` commit in /repo to property / rule / witness.  Regenerates
known_findings.json's fixed: entries (status=known entries are preserved) and the reverse-patch variants."""
import json
import os
import subprocess
import sys

HERE = os.path.dirname(os.path.dirname(os.path.abspath(__file__)))
BASE = "e9ae915"
M = json.load(open(os.path.join(HERE, "tools", "ledger.json")))


def git(*a):
    return subprocess.run(["git", "-C", "/repo", *a], capture_output=True, text=True).stdout


def main():
    log = git("log", "--reverse", "--format=%h\t%s", f"{BASE}..HEAD").strip().split("\n")
    fixed = []
    for l in log:
        h, subj = l.split("\t", 1)
        if not subj.startswith("fix:"):
            continue
        if h not in M:
            print("UNMAPPED fix commit", h, subj)
            continue
        e = M[h]
        fixed.append({"status": "fixed", "property": e["property"], "rule": e["rule"], "commit": h,
                      "what": e["what"], "subject": subj,
                      "line": f"fixed: property={e['property']} {h} {e['what']}"})
        if "--variants" in sys.argv and not e.get("no_variant"):
            d = os.path.join(HERE, "variants", e["property"])
            os.makedirs(d, exist_ok=True)
            diff = git("diff", h, h + "~1", "--", "src")
            name = f"revert_{h}"
            with open(os.path.join(d, name + ".diff"), "w") as f:
                f.write(diff)
            v = {"rule": e.get("variant_rule", e["rule"]), "expect": e.get("expect", "fire"),
                 "key_contains": e.get("key", ""), "patch": name + ".diff",
                 "note": f"reverse of fix commit {h}: {subj}"}
            with open(os.path.join(d, name + ".json"), "w") as f:
                json.dump(v, f, indent=1)
                f.write("\n")
    p = os.path.join(HERE, "known_findings.json")
    cur = json.load(open(p)) if os.path.exists(p) else {"findings": []}
    known = [x for x in cur["findings"] if x.get("status") == "known"]
    cur["findings"] = known + fixed
    cur.setdefault("comment", "")
    with open(p, "w") as f:
        json.dump(cur, f, indent=1)
        f.write("\n")
    print(len(known), "known,", len(fixed), "fixed")


if __name__ == "__main__":
    main()
