"""Helper to write variant descriptions: V(prop, name, rule, [(file, old, new[, count])], expect, key, note)."""
import json
import os

HERE = os.path.dirname(os.path.dirname(os.path.abspath(__file__)))


def V(prop, name, rule, edits, expect="fire", key="", note=""):
    os.makedirs(f"{HERE}/variants/{prop}", exist_ok=True)
    ed = []
    for e in edits:
        f, o, n = e[0], e[1], e[2]
        d = {"file": f, "old": o, "new": n}
        if len(e) > 3 and e[3] != 1:
            d["count"] = e[3]
        ed.append(d)
    d = {"rule": rule, "expect": expect, "key_contains": key, "note": note, "edits": ed}
    with open(f"{HERE}/variants/{prop}/{name}.json", "w") as fh:
        json.dump(d, fh, indent=1)
        fh.write("\n")


L = "src/ckl/lexer.py"
F = "src/ckl/functions.py"
N = "src/ckl/nodes.py"
VA = "src/ckl/values.py"
PA = "src/ckl/parser.py"
