#!/venv/bin/python
"""After /repo history was rewritten (autosquash of a fix refinement), re-key tools/ledger.json by subject."""
import glob, json, os, subprocess
HERE = os.path.dirname(os.path.dirname(os.path.abspath(__file__)))
old = json.load(open(f"{HERE}/tools/ledger.json"))
k = json.load(open(f"{HERE}/known_findings.json"))
subj_by_old = {x["commit"]: x["subject"] for x in k["findings"] if x.get("status") == "fixed"}
log = subprocess.run(["git", "-C", "/repo", "log", "--reverse", "--format=%h\t%s", "e9ae915..HEAD"],
                     capture_output=True, text=True).stdout.strip().split("\n")
new_by_subj = {l.split("\t", 1)[1]: l.split("\t", 1)[0] for l in log}
new = {}
for oh, e in old.items():
    s = subj_by_old.get(oh)
    nh = new_by_subj.get(s) if s else (oh if oh in new_by_subj.values() else None)
    if nh is None:
        print("UNMAPPED", oh, s)
        continue
    new[nh] = e
json.dump(new, open(f"{HERE}/tools/ledger.json", "w"), indent=1)
for f in glob.glob(f"{HERE}/variants/*/revert_*"):
    os.remove(f)
print(len(new), "entries")
