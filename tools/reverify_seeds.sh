#!/bin/bash
# Re-verify every stored seed against /repo HEAD: patch applies, suite green, demo fails with / passes without.
mkdir -p /tmp/seedv
for d in /verif/seeded/*/; do
  id=$(basename $d)
  WT=/tmp/seedv/$id
  git -C /repo worktree add -q --detach $WT HEAD || continue
  cd $WT
  if ! git apply $d/patch.diff 2>/dev/null; then
    if ! patch -p1 -s -f --no-backup-if-mismatch -i $d/patch.diff >/dev/null 2>&1; then echo "$id patch-does-not-apply"; cd /; git -C /repo worktree remove --force $WT; continue; fi
  fi
  SUITE=$(PYTHONPATH=$WT/src /venv/bin/python -m pytest -q -p no:cacheprovider 2>&1 | tail -1)
  timeout 900 /venv/bin/python $d/demo.py $WT/src >/dev/null 2>&1; WITH=$?
  git checkout -q -- . ; git clean -fdq
  timeout 900 /venv/bin/python $d/demo.py $WT/src >/dev/null 2>&1; WITHOUT=$?
  echo "$id suite='$SUITE' with=$WITH without=$WITHOUT"
  cd /; git -C /repo worktree remove --force $WT
done
