#!/venv/bin/python
"""Apply behaviour-preserving refactoring diffs (refactors/<name>.diff) to a scratch copy of /repo's tree and run
every quick check: any VIOLATION is a false alarm of the machinery; exit 2 (refusal) is listed separately."""
import glob
import os
import shutil
import subprocess
import sys
import tempfile
from concurrent.futures import ProcessPoolExecutor

HERE = os.path.dirname(os.path.dirname(os.path.abspath(__file__)))
PROPS = ["C%02d" % i for i in range(1, 21) if i != 17]


def one(path):
    path = os.path.abspath(path)
    tmp = tempfile.mkdtemp(prefix="cklrefac-")
    try:
        shutil.copytree("/repo/src", os.path.join(tmp, "src"), ignore=shutil.ignore_patterns("__pycache__", "*.egg-info"))
        r = subprocess.run(["patch", "-p1", "-s", "-f", "--no-backup-if-mismatch", "-i", path], cwd=tmp,
                           capture_output=True, text=True)
        if r.returncode != 0:
            return path, "patch does not apply", []
        out = []
        for p in PROPS:
            env = dict(os.environ, CKL_REPO=tmp)
            r = subprocess.run(["/venv/bin/python", os.path.join(HERE, "check"), p, "--no-evidence"], env=env,
                               capture_output=True, text=True, cwd=HERE)
            if r.returncode == 1:
                lines = [l.strip() for l in r.stdout.splitlines() if l.startswith("  ")]
                out.append((p, "ALARM", lines[:3]))
            elif r.returncode == 2:
                out.append((p, "refused", [r.stdout.strip().splitlines()[0][:200]]))
        return path, "ok", out
    finally:
        shutil.rmtree(tmp, ignore_errors=True)


def main():
    paths = sorted(sys.argv[1:] or [p for p in glob.glob(os.path.join(HERE, "refactors", "*", "*.diff")) if "/stale/" not in p])
    with ProcessPoolExecutor(max_workers=8) as ex:
        for path, st, out in ex.map(one, paths):
            name = "/".join(path.split("/")[-2:])
            if st != "ok":
                print(f"{name}: {st}")
                continue
            if not out:
                print(f"{name}: silent")
            for p, kind, lines in out:
                print(f"{name}: {p} {kind}")
                for l in lines:
                    print(f"      {l[:260]}")


if __name__ == "__main__":
    main()
