#!/venv/bin/python
"""Apply every seeded change (seeded/<id>/patch.diff) to a scratch copy of /repo's tree and run the quick
check of its property (and optionally all properties) on it.  Nothing is applied to /repo itself."""
import json
import os
import shutil
import subprocess
import sys
import tempfile

HERE = os.path.dirname(os.path.dirname(os.path.abspath(__file__)))


def one(d):
    rows = []
    if True:
        sd = os.path.join(HERE, "seeded", d)
        meta = json.load(open(os.path.join(sd, "meta.json")))
        obsolete = meta.get("status") == "obsolete"
        tmp = tempfile.mkdtemp(prefix="cklseed-")
        try:
            shutil.copytree("/repo/src", os.path.join(tmp, "src"),
                            ignore=shutil.ignore_patterns("__pycache__", "*.egg-info"))
            r = subprocess.run(["patch", "-p1", "-s", "-f", "--no-backup-if-mismatch", "-i",
                                os.path.join(sd, "patch.diff")], cwd=tmp, capture_output=True, text=True)
            if r.returncode != 0:
                return (d, "patch does not apply", "")
            hits = []
            props = ["C%02d" % i for i in range(1, 21)]
            for p in props:
                if not os.path.exists(os.path.join(HERE, "cklstat", "rules", p + ".py")):
                    continue
                env = dict(os.environ, CKL_REPO=tmp)
                r = subprocess.run(["/venv/bin/python", os.path.join(HERE, "check"), p, "--no-evidence"],
                                   env=env, capture_output=True, text=True, cwd=HERE)
                if r.returncode == 1:
                    lines = [l.strip() for l in r.stdout.splitlines() if l.startswith("  ")]
                    hits.append((p, lines[0][:230] if lines else "?"))
                elif r.returncode == 2:
                    hits.append((p, "ANALYSIS-ERROR " + r.stdout.strip().splitlines()[0][:200]))
            own = meta["property"]
            real = [h for h in hits if not h[1].startswith("ANALYSIS-ERROR")]
            verdict = "CAUGHT" if any(h[0] == own for h in real) else \
                ("caught-by-other" if real else ("REFUSED(exit2)" if hits else "MISSED"))
            if obsolete:
                verdict = "OBSOLETE:" + ("silent-ok" if not real else "ALARM")
            return (d, verdict, "; ".join(f"{p}: {m}" for p, m in hits))
        finally:
            shutil.rmtree(tmp, ignore_errors=True)


def main():
    from concurrent.futures import ProcessPoolExecutor
    only = sys.argv[1:]
    ds = [d for d in sorted(os.listdir(os.path.join(HERE, "seeded")))
          if not only or any(d.startswith(o) for o in only)]
    with ProcessPoolExecutor(max_workers=12) as ex:
        for d, v, h in ex.map(one, ds):
            print(f"{d:8} {v:16} {h}", flush=True)


if __name__ == "__main__":
    main()
