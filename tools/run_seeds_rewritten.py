#!/venv/bin/python
"""Every seeded breaking change applied to a scratch copy, THEN the whole package rewritten (alpha-renaming plus the
mechanical rewrites of variants/C01/rewrite_everything.json), then the seed's own property checked: the normal form and the
canonical names must not hide what is caught on the plain tree."""
import json, os, shutil, subprocess, sys, tempfile
sys.path.insert(0, '/verif')
from concurrent.futures import ProcessPoolExecutor
HERE='/verif'
def one(d):
    sd=os.path.join(HERE,'seeded',d)
    meta=json.load(open(os.path.join(sd,'meta.json')))
    if meta.get('status')=='obsolete': return d,'obsolete',''
    tmp=tempfile.mkdtemp(prefix='cklsc-')
    try:
        shutil.copytree('/repo/src', os.path.join(tmp,'src'), ignore=shutil.ignore_patterns('__pycache__','*.egg-info'))
        r=subprocess.run(['patch','-p1','-s','-f','--no-backup-if-mismatch','-i',os.path.join(sd,'patch.diff')],cwd=tmp,capture_output=True,text=True)
        if r.returncode!=0: return d,'noapply',''
        from cklstat import selftest
        v=json.load(open(os.path.join(HERE,'variants','C01','rewrite_everything.json')))
        why=selftest.apply_variant(v,tmp)
        if why: return d,'rewrite-failed',why
        own=meta['property']
        r=subprocess.run(['/venv/bin/python',os.path.join(HERE,'check'),own,'--no-evidence'],env=dict(os.environ,CKL_REPO=tmp),capture_output=True,text=True,cwd=HERE)
        first=[l.strip() for l in r.stdout.splitlines() if l.startswith('  ')][:1]
        return d,{0:'SILENT',1:'CAUGHT',2:'refused'}.get(r.returncode,'?'),(first[0][:120] if first else r.stdout.strip()[:120])
    finally:
        shutil.rmtree(tmp,ignore_errors=True)
ds=sorted(os.listdir(os.path.join(HERE,'seeded')))
with ProcessPoolExecutor(max_workers=12) as ex:
    for d,v,h in ex.map(one,ds):
        print(f"{d:8} {v:10} {h}",flush=True)
