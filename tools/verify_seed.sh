#!/bin/bash
# usage: verify_seed.sh C03 A   -> verifies /tmp/seed/out-C03/A.diff + demo_A.py against /repo HEAD
ID=$1; X=$2
OUT=/tmp/seed/out-$ID
WT=/tmp/seedv/$ID$X
mkdir -p /tmp/seedv
git -C /repo worktree add -q --detach $WT HEAD || exit 3
cleanup() { git -C /repo worktree remove --force $WT; }
trap cleanup EXIT
cd $WT
if ! git apply $OUT/$X.diff 2>/tmp/seedv/apply-$ID$X.err; then echo "RESULT $ID$X patch-does-not-apply: $(head -2 /tmp/seedv/apply-$ID$X.err)"; exit 0; fi
SUITE=$(PYTHONPATH=$WT/src /venv/bin/python -m pytest -q -p no:cacheprovider 2>&1 | tail -1)
timeout 600 /venv/bin/python $OUT/demo_$X.py $WT/src >/tmp/seedv/demo_with-$ID$X.log 2>&1; WITH=$?
git checkout -q -- .
timeout 600 /venv/bin/python $OUT/demo_$X.py $WT/src >/tmp/seedv/demo_without-$ID$X.log 2>&1; WITHOUT=$?
echo "RESULT $ID$X suite='$SUITE' demo_with_change=$WITH demo_without=$WITHOUT"
if [[ "$SUITE" == "854 passed"* && $WITH == 1 && $WITHOUT == 0 ]]; then
  D=/verif/seeded/$ID-$X; mkdir -p $D
  cp $OUT/$X.diff $D/patch.diff; cp $OUT/demo_$X.py $D/demo.py
  tail -5 /tmp/seedv/demo_with-$ID$X.log > $D/demo_output_with_change.txt
  echo "KEEP $D"
fi
